"""Input-consumption monitor (DESIGN 3): wraps the generated parser's start rule and records, for every parse that
returned, whether the token stream was consumed up to EOF.  An accepted token whose input was NOT fully consumed
is the observable behind the 'valid-prefix-accepted' finding."""
from __future__ import annotations

from antlr4 import Token
from kernpy.core.generated.kernSpineParser import kernSpineParser

LOG = []          # list of (text, consumed_all: bool)
COUNT = {'parses': 0, 'partial': 0}
_orig = None


def install():
    global _orig
    if _orig is not None:
        return
    _orig = kernSpineParser.start

    def start(self):
        res = _orig(self)
        try:
            la = self._input.LA(1)
            text = self._input.tokenSource.inputStream.strdata
        except Exception:  # pragma: no cover
            la, text = Token.EOF, None
        consumed = (la == Token.EOF)
        COUNT['parses'] += 1
        if not consumed:
            COUNT['partial'] += 1
        LOG.append((text, consumed))
        if len(LOG) > 50000:
            del LOG[:25000]
        return res
    kernSpineParser.start = start


def uninstall():
    global _orig
    if _orig is not None:
        kernSpineParser.start = _orig
        _orig = None


def last():
    return LOG[-1] if LOG else None


def clear():
    LOG.clear()
