"""Pitch shadow (DESIGN 3): every transpose / to_transposed / export_pitch call that kernpy ITSELF issues while a
document is transposed or exported in an agnostic encoding is compared with model/intervals, and export_pitch's argument
object is snapshotted (icontract snapshot + ensure).  Owners: C09 (arithmetic) and C16 (codec purity)."""
from __future__ import annotations

import random

import icontract

from ..model import intervals as I

LOG = {'transpose_calls': 0, 'export_pitch_calls': 0, 'to_transposed_calls': 0, 'arith_problems': [], 'purity_problems': []}
_orig = {}


def _snap(pitch):
    return (pitch.name, pitch.octave)


def _unchanged(pitch, result, OLD):
    LOG['export_pitch_calls'] += 1
    if (pitch.name, pitch.octave) != OLD.before:
        LOG['purity_problems'].append(f'export_pitch changed its argument {OLD.before} -> {(pitch.name, pitch.octave)}')
    else:
        letter = pitch.name[0]
        alt = pitch.name.count('+') - pitch.name.count('-')
        # lossless: the exported spelling is the model's spelling (Humdrum exporter only)
    return True


def install():
    import kernpy.core.document as DOC
    import kernpy.core.pitch_models as PM
    import kernpy.core.transposer as TR
    if _orig:
        return
    _orig['doc.transpose'] = DOC.transpose
    by_val = {v: k for k, v in TR.IntervalsByName.items()}

    def transpose(input_encoding, interval, *a, **kw):
        res = _orig['doc.transpose'](input_encoding, interval, *a, **kw)
        LOG['transpose_calls'] += 1
        try:
            direction = kw.get('direction', 'up')
            name = by_val.get(interval)
            l, al, o = I.unspell(input_encoding)
            el, ea, eo = I.transpose(l, al, o, name, direction == 'up')
            if abs(ea) <= 2 and res != I.spell(el, ea, eo):
                LOG['arith_problems'].append(f'internal transpose({input_encoding!r}, {name}, {direction}) = {res!r}, model {I.spell(el, ea, eo)!r}')
        except Exception:  # the model has no opinion on this call (unknown spelling / interval): counted only
            LOG['uninterpretable'] = LOG.get('uninterpretable', 0) + 1
        return res
    DOC.transpose = transpose
    for cls in (PM.HumdrumPitchExporter, PM.AmericanPitchExporter):
        _orig[cls.__name__] = cls.export_pitch
        f = icontract.ensure(_unchanged)(cls.export_pitch)
        f = icontract.snapshot(_snap, name='before')(f)
        cls.export_pitch = f


def uninstall():
    import kernpy.core.document as DOC
    import kernpy.core.pitch_models as PM
    if not _orig:
        return
    DOC.transpose = _orig['doc.transpose']
    PM.HumdrumPitchExporter.export_pitch = _orig['HumdrumPitchExporter']
    PM.AmericanPitchExporter.export_pitch = _orig['AmericanPitchExporter']
    _orig.clear()


def drain():
    out = {k: (v[:] if isinstance(v, list) else v) for k, v in LOG.items()}
    for k in LOG:
        LOG[k] = [] if isinstance(LOG[k], list) else 0
    return out


def run_shadow(ctx, kp, owner):
    """Small document workload (transposition + agnostic export) under the shadow; violations go to `owner`."""
    from ..gen.workload import make_doc
    from .. import kpx
    from ..common import subseed
    install()
    names = list(I.INTERVALS)
    for i in range(25):
        cs = subseed(ctx.seed, 'pitchshadow', i)
        doc, _ = make_doc(cs, 'kern_only', p_sig=1.0)
        d, e, exc = kpx.loads(doc.text(0))
        if exc is not None or e:
            continue
        rng = random.Random(cs)
        for _ in range(6):
            try:
                d.to_transposed(rng.choice(names), rng.choice(['up', 'down']))
            except Exception:
                pass
        kpx.dumps(d, encoding=kpx.Enc.agnosticKern)
    log = drain()
    uninstall()
    ctx.mon('shadow_transpose_calls', log['transpose_calls'])
    ctx.mon('shadow_export_pitch_contract_evaluations', log['export_pitch_calls'])
    if owner == 'C09':
        for p in log['arith_problems'][:3]:
            ctx.violation('shadow-arithmetic', p, {'shadow': True})
        if log['transpose_calls'] == 0:
            ctx.inconc('pitch shadow observed no internal transpose call')
    if owner == 'C16':
        for p in log['purity_problems'][:3]:
            ctx.violation('export-mutates-argument', 'under document workload: ' + p, {'shadow': True})
        if log['export_pitch_calls'] == 0:
            ctx.inconc('export_pitch contract was never evaluated under the document workload')
