"""Category shadow (DESIGN 3): every valid / match / is_child / nodes / children / leaves call made BY KERNPY ITSELF
(importers, exporter, document queries) is compared with model/cattree.  Owner: C11."""
from __future__ import annotations

import random

from ..model import cattree as M

LOG = {'calls': 0, 'by_fn': {}, 'problems': [], 'uninterpretable': 0}
_orig = {}


def _names(s):
    return {c.name for c in s}


def _as_names(arg):
    if arg is None:
        return None
    if isinstance(arg, (set, list, tuple, frozenset)):
        return tuple(c.name for c in arg)
    return (arg.name,)


def install():
    import kernpy as kp
    HM = kp.TokenCategoryHierarchyMapper
    if _orig:
        return

    def wrap(name, check):
        orig = getattr(HM, name).__func__
        _orig[name] = orig

        def f(cls, *a, **kw):
            res = orig(cls, *a, **kw)
            LOG['calls'] += 1
            LOG['by_fn'][name] = LOG['by_fn'].get(name, 0) + 1
            try:
                msg = check(res, *a, **kw)
                if msg:
                    LOG['problems'].append(msg)
            except Exception:  # arguments the model has no opinion on (e.g. the invalid types some tests pass): counted only
                LOG['uninterpretable'] += 1
            return res
        setattr(HM, name, classmethod(f))

    def c_valid(res, include=None, exclude=None):
        exp = M.valid(_as_names(include), _as_names(exclude))
        if _names(res) != exp:
            return f'valid(include={_as_names(include)}, exclude={_as_names(exclude)}) = {sorted(_names(res))}, model {sorted(exp)}'

    def c_match(res, category, include=None, exclude=None):
        exp = M.match(category.name, _as_names(include), _as_names(exclude))
        if bool(res) != exp:
            return f'match({category.name}, include={_as_names(include)}, exclude={_as_names(exclude)}) = {res}, model {exp}'

    def c_is_child(res, parent=None, child=None):
        exp = M.is_child(child.name, parent.name)
        if bool(res) != exp:
            return f'is_child(child={child.name}, parent={parent.name}) = {res}, model {exp}'

    def c_nodes(res, parent):
        if _names(res) != set(M.DESC[parent.name]):
            return f'nodes({parent.name}) = {sorted(_names(res))}'

    def c_children(res, parent):
        if _names(res) != set(M.CHILDREN[parent.name]):
            return f'children({parent.name}) = {sorted(_names(res))}'

    def c_leaves(res, target):
        if _names(res) != M.leaves(target.name):
            return f'leaves({target.name}) = {sorted(_names(res))}'
    wrap('valid', c_valid)
    wrap('match', c_match)
    wrap('is_child', c_is_child)
    wrap('nodes', c_nodes)
    wrap('children', c_children)
    wrap('leaves', c_leaves)


def uninstall():
    import kernpy as kp
    HM = kp.TokenCategoryHierarchyMapper
    for name, orig in _orig.items():
        setattr(HM, name, classmethod(orig))
    _orig.clear()


def run_shadow(ctx, kp, n_docs=40, salt=0):
    from ..gen.workload import make_doc
    from ..common import subseed
    from .. import kpx
    install()
    TC = kp.TokenCategory
    try:
        for i in range(n_docs):
            cs = subseed(ctx.seed, 'catshadow', salt, i)
            rng = random.Random(cs)
            doc, _ = make_doc(cs)
            d, e, exc = kpx.loads(doc.text(0))
            if exc is not None:
                continue
            for _ in range(6):
                inc = {TC[c] for c in rng.sample(M.ORDER, rng.randint(1, 5))} if rng.random() < 0.7 else None
                exc_ = {TC[c] for c in rng.sample(M.ORDER, rng.randint(1, 3))} if rng.random() < 0.5 else None
                kpx.dumps(d, include=inc, exclude=exc_, encoding=rng.choice(kpx.ENCODINGS))
                try:
                    d.get_all_tokens(filter_by_categories=inc)
                    d.frequencies(token_categories=list(inc) if inc else None)
                except Exception:
                    pass
            kp.is_monophonic(d)
            kp.spine_types(d)
    finally:
        log = {'calls': LOG['calls'], 'by_fn': dict(LOG['by_fn']), 'problems': LOG['problems'][:]}
        LOG['calls'] = 0
        LOG['by_fn'].clear()
        LOG['problems'].clear()
        uninstall()
    ctx.mon('shadow_calls_issued_by_kernpy', log['calls'])
    ctx.extra['shadow_calls_by_function'] = log['by_fn']
    for p in log['problems'][:3]:
        ctx.violation('shadow', 'call issued by kernpy itself: ' + p, {'shadow': True})
    if log['calls'] == 0:
        ctx.inconc('category shadow observed no call issued by kernpy')
