"""icontract post-condition on MultistageTree.add_node (DESIGN 3, 'add_node'): the node is appended to the right stage
and to its parent, and stages never shrink.  Conditions record and return True (a raising contract would abort the
import it observes); the verdict is taken from the log afterwards."""
from __future__ import annotations

import icontract

from kernpy.core import document as D

LOG = {'evaluations': 0, 'problems': []}
_orig = None


def _lens(self):
    return [len(s) for s in self.stages]


def _parent_children(parent):
    return len(parent.children)


def _post(self, stage, parent, result, OLD):
    LOG['evaluations'] += 1
    probs = LOG['problems']
    old = OLD.lens
    new = [len(s) for s in self.stages]
    if len(new) < len(old) or any(new[i] < old[i] for i in range(len(old))):
        probs.append(f'stages shrank: {old} -> {new}')
    if stage >= len(self.stages) or self.stages[stage][-1] is not result:
        probs.append(f'node not appended to stage {stage}')
    grown = sum(new) - sum(old)
    if grown != 1:
        probs.append(f'{grown} nodes appeared in the stages during one add_node')
    if not parent.children or parent.children[-1] is not result or len(parent.children) != OLD.nchildren + 1:
        probs.append('node not appended (exactly once) to its parent\'s children')
    if result.parent is not parent or result.stage != stage:
        probs.append('node.parent / node.stage differ from the arguments')
    return True


def install():
    global _orig
    if _orig is not None:
        return
    _orig = D.MultistageTree.add_node
    f = icontract.ensure(_post)(_orig)
    f = icontract.snapshot(_parent_children, name='nchildren')(f)
    f = icontract.snapshot(_lens, name='lens')(f)
    D.MultistageTree.add_node = f


def uninstall():
    global _orig
    if _orig is not None:
        D.MultistageTree.add_node = _orig
        _orig = None


def drain():
    p = LOG['problems'][:]
    n = LOG['evaluations']
    LOG['problems'].clear()
    LOG['evaluations'] = 0
    return n, p
