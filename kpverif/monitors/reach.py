"""Reach monitor (sys.monitoring, PY_START on selected code objects only): which listener callbacks / importer and
exporter functions a workload entered.  Evidence only; a workload that never reaches a deciding function is reported
as inconclusive by the check that needs it."""
from __future__ import annotations

import sys
from collections import Counter

TOOL = 4
_codes = {}
COUNTS = Counter()
_installed = False


def _cb(code, offset):
    name = _codes.get(code)
    if name is not None:
        COUNTS[name] += 1


def install(targets):
    """targets: iterable of classes or functions."""
    global _installed
    mon = sys.monitoring
    if not _installed:
        try:
            mon.use_tool_id(TOOL, 'kpverif-reach')
        except ValueError:
            pass
        mon.register_callback(TOOL, mon.events.PY_START, _cb)
        _installed = True
    for t in targets:
        if isinstance(t, type):
            for name, f in vars(t).items():
                fn = getattr(f, '__func__', f)
                code = getattr(fn, '__code__', None)
                if code is not None:
                    _codes[code] = f'{t.__name__}.{name}'
                    mon.set_local_events(TOOL, code, mon.events.PY_START)
        else:
            code = getattr(t, '__code__', None)
            if code is not None:
                _codes[code] = getattr(t, '__qualname__', str(t))
                mon.set_local_events(TOOL, code, mon.events.PY_START)


def uninstall():
    global _installed
    mon = sys.monitoring
    if _installed:
        for code in list(_codes):
            try:
                mon.set_local_events(TOOL, code, 0)
            except Exception:
                pass
        mon.register_callback(TOOL, mon.events.PY_START, None)
        try:
            mon.free_tool_id(TOOL)
        except Exception:
            pass
        _codes.clear()
        _installed = False


def drain(prefix=''):
    out = {f'{prefix}{k}': v for k, v in COUNTS.items()}
    COUNTS.clear()
    return out


def install_listener_reach():
    from kernpy.core.base_antlr_spine_parser_listener import BaseANTLRSpineParserListener
    from kernpy.core.generated.kernSpineParserListener import kernSpineParserListener
    # only exit* of the generated listener (one per grammar rule) + everything of the hand-written one
    mon = sys.monitoring
    install([BaseANTLRSpineParserListener])
    for name, f in vars(kernSpineParserListener).items():
        if name.startswith('exit') and hasattr(f, '__code__') and name not in vars(BaseANTLRSpineParserListener):
            _codes[f.__code__] = f'rule.{name[4:]}'
            mon.set_local_events(TOOL, f.__code__, mon.events.PY_START)
