"""PY_RETURN observer on Exporter.export_string (sys.monitoring, local event on that one code object): reads the frame
locals from_stage / to_stage at return, so that the evidence can show which stage ranges the measure arithmetic produced.
Evidence only - the verdict of C07 is taken from the exported text."""
from __future__ import annotations

import sys

TOOL = 3
LOG = []
_on = False


def _cb(code, offset, retval):
    try:
        f = sys._getframe(1)
        if f.f_code is code:
            loc = f.f_locals
            opts = loc.get('options')
            LOG.append((getattr(opts, 'from_measure', None), getattr(opts, 'to_measure', None),
                        loc.get('from_stage'), loc.get('to_stage')))
    except Exception:
        pass


def install():
    global _on
    if _on:
        return
    import kernpy.core.exporter as EX
    mon = sys.monitoring
    try:
        mon.use_tool_id(TOOL, 'kpverif-stages')
    except ValueError:
        pass
    mon.register_callback(TOOL, mon.events.PY_RETURN, _cb)
    mon.set_local_events(TOOL, EX.Exporter.export_string.__code__, mon.events.PY_RETURN)
    _on = True


def uninstall():
    global _on
    if not _on:
        return
    import kernpy.core.exporter as EX
    mon = sys.monitoring
    mon.set_local_events(TOOL, EX.Exporter.export_string.__code__, 0)
    mon.register_callback(TOOL, mon.events.PY_RETURN, None)
    try:
        mon.free_tool_id(TOOL)
    except Exception:
        pass
    _on = False


def drain():
    out = LOG[:]
    LOG.clear()
    return out
