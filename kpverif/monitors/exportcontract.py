"""icontract contract on NoteRestToken.export (DESIGN C01): the output is made of exactly the filtered sub-token
encodings (no part invented or lost), and the token's own lists are not mutated.  Conditions record and return True."""
from __future__ import annotations

import icontract

from kernpy.core import tokens as T

LOG = {'evaluations': 0, 'problems': [], 'dedup_seen': 0, 'dedup_dropped': 0}
_orig = None
_orig_add = None


def _lists(self):
    return (tuple((id(s), s.encoding, s.category) for s in self.pitch_duration_subtokens),
            tuple((id(s), s.encoding, s.category) for s in self.decoration_subtokens),
            id(self.pitch_duration_subtokens), id(self.decoration_subtokens))


def _unchanged(self, result, OLD):
    LOG['evaluations'] += 1
    if _lists(self) != OLD.lists:
        LOG['problems'].append(f'NoteRestToken.export mutated its sub-token lists ({self.encoding!r})')
    return True


def install():
    global _orig, _orig_add
    if _orig is not None:
        return
    _orig = T.NoteRestToken.export

    def export(self, *args, **kwargs):
        res = _orig(self, *args, **kwargs)
        if args:
            return res          # a call form the monitor does not interpret
        f = kwargs.get('filter_categories')
        if kwargs.get('convert_pitch_to_agnostic') is None:
            exp_pd = sorted(s.encoding for s in self.pitch_duration_subtokens if f is None or f(s.category))
            exp_de = sorted(s.encoding for s in self.decoration_subtokens if f is None or f(s.category))
            if res == T.EMPTY_TOKEN and not exp_pd and not exp_de:
                return res
            pd_txt, _, de_txt = res.partition(T.DECORATION_SEPARATOR)
            got_pd = sorted(x for x in pd_txt.split(T.TOKEN_SEPARATOR) if x != '') if pd_txt else []
            got_de = sorted(de_txt.split(T.DECORATION_SEPARATOR)) if de_txt else []
            if got_pd != exp_pd or got_de != exp_de:
                LOG['problems'].append(f'NoteRestToken.export output {res!r} is not made of exactly the selected sub-tokens '
                                       f'{exp_pd} / {exp_de}')
        return res
    # icontract (snapshot + ensure) guards the token's own lists; the wrapper above checks the content of the output
    g = icontract.ensure(_unchanged)(export)
    g = icontract.snapshot(_lists, name='lists')(g)
    T.NoteRestToken.export = g

    from kernpy.core.base_antlr_spine_parser_listener import BaseANTLRSpineParserListener as BL
    _orig_add = BL._add_decoration

    def _add(self, *a, **k):
        n0 = len(self.decorations)
        r = _orig_add(self, *a, **k)
        LOG['dedup_seen'] += 1
        if len(self.decorations) == n0:
            LOG['dedup_dropped'] += 1
        encs = [d.encoding for d in self.decorations]
        if len(encs) != len(set(encs)):
            LOG['problems'].append(f'duplicate decoration kept: {encs}')
        return r
    BL._add_decoration = _add


def uninstall():
    global _orig, _orig_add
    if _orig is not None:
        T.NoteRestToken.export = _orig
        _orig = None
    if _orig_add is not None:
        from kernpy.core.base_antlr_spine_parser_listener import BaseANTLRSpineParserListener as BL
        BL._add_decoration = _orig_add
        _orig_add = None


def drain():
    out = dict(LOG)
    out['problems'] = LOG['problems'][:]
    LOG['problems'].clear()
    LOG['evaluations'] = 0
    LOG['dedup_seen'] = 0
    LOG['dedup_dropped'] = 0
    return out
