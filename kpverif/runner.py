"""CLI: python -m kpverif.runner <ID> [--tier quick|thorough] [--replay FILE] [--shard i/n --partial FILE]"""
from __future__ import annotations

import argparse
import importlib
import json
import os
import subprocess
import sys
import time
from concurrent.futures import ThreadPoolExecutor
from pathlib import Path

from .common import Ctx, ROOT, SCRATCH_DIR, assert_repo_import


def load_check(pid: str):
    return importlib.import_module(f'kpverif.checks.{pid.lower()}')


def _reach_on():
    """Reach observer (sys.monitoring PY_START on the code objects of the classes the properties are anchored in): evidence of
    which importer / exporter / document / tokenizer code the workload entered."""
    try:
        from .monitors import reach
        import kernpy.core.importer as IM
        import kernpy.core.exporter as EX
        import kernpy.core.document as DO
        import kernpy.core.tokenizers as TZ
        import kernpy.core.generic as GE
        reach.install([IM.Importer, EX.Exporter, DO.Document, DO.MultistageTree, GE.Generic, TZ.TokenizerFactory,
                       TZ.KernTokenizer, TZ.EkernTokenizer, TZ.BkernTokenizer, TZ.BekernTokenizer, TZ.AKernTokenizer, TZ.AEKernTokenizer])
        return reach
    except Exception:
        return None


def _reach_off(ctx, reach):
    if reach is not None:
        try:
            ctx.reach.update(reach.drain())
            reach.uninstall()
        except Exception:
            pass


def run_shard(pid, tier, seed, i, n, partial):
    mod = load_check(pid)
    ctx = Ctx(pid, tier, seed, shard=(i, n))
    assert_repo_import(ctx)
    rc = _reach_on() if i == 0 else None
    try:
        mod.run(ctx)
    except Exception as e:  # harness failure inside a shard is inconclusive, never "held"
        _crash(ctx, e)
    _reach_off(ctx, rc)
    Path(partial).write_text(json.dumps(ctx.to_partial(), ensure_ascii=False, default=str), encoding='utf-8')
    return 0


def hashseed_for(seed, tier, shard_i):
    """The interpreter's hash seed is part of the workload: kernpy keeps category and header selections in sets, so the order in
    which a set is walked is an input like any other.  It is a function of (seed, tier, shard): quick = the seed itself (seed 0 ->
    0), thorough = a different value for every shard.  Recorded in evidence and replay files; --replay re-creates it."""
    if tier == 'quick':
        return seed % 4294967295
    return (seed * 1000 + 17 * shard_i + 1) % 4294967295


def ensure_hashseed(want, argv):
    if os.environ.get('PYTHONHASHSEED') == str(want) or os.environ.get('KPVERIF_NO_REEXEC'):
        return
    env = dict(os.environ, PYTHONHASHSEED=str(want))
    sys.stdout.flush()
    os.execve(sys.executable, [sys.executable, '-m', 'kpverif.runner'] + list(argv), env)


def _crash(ctx, e):
    """The driver stopped on an exception.  When the exception was RAISED INSIDE kernpy (innermost frame in the library under test) by a
    call the driver did not expect to fail - on the unchanged tree none does - the library refused something the workload considers
    legal: reported as a violation with the traceback, and the run is inconclusive as well (the rest of the workload did not run)."""
    import traceback
    tb = traceback.extract_tb(e.__traceback__)
    inner = tb[-1].filename if tb else ''
    txt = traceback.format_exc()[-1200:]
    if '/kernpy/' in inner and '/kpverif/' not in inner:
        ctx.violation('library-raised-in-unguarded-call', f'{type(e).__name__}: {e} (raised in {inner.split("/kernpy/")[-1]}:{tb[-1].lineno}, '
                      f'called from {next((f.filename.split("/")[-1] + ":" + str(f.lineno) for f in reversed(tb) if "/kpverif/" in f.filename), "?")})',
                      {'traceback': txt})
    ctx.inconc(f'check crashed: {type(e).__name__}: {e} :: {txt}')


def main(argv=None):
    argv = list(sys.argv[1:] if argv is None else argv)
    ap = argparse.ArgumentParser()
    ap.add_argument('pid')
    ap.add_argument('--tier', default=os.environ.get('VERIF_TIER', 'quick'))
    ap.add_argument('--seed', type=int, default=None)
    ap.add_argument('--replay', default=None)
    ap.add_argument('--shard', default=None)
    ap.add_argument('--partial', default=None)
    ap.add_argument('--shards', type=int, default=None, help='override the number of shards')
    args = ap.parse_args(argv)
    pid = args.pid.upper()
    tier = args.tier if args.tier in ('quick', 'thorough') else 'quick'
    seed = args.seed if args.seed is not None else int(os.environ.get('VERIF_SEED', '0') or 0)
    mod = load_check(pid)

    if args.replay:
        data = json.loads(Path(args.replay).read_text(encoding='utf-8'))
        if data.get('hashseed') is not None:
            ensure_hashseed(int(data['hashseed']), argv)
        ctx = Ctx(pid, tier, seed, replay=True)
        assert_repo_import(ctx)
        for w in data.get('witnesses', []):
            mod.replay(ctx, w)
        return ctx.finish()

    if args.shard:
        i, n = (int(x) for x in args.shard.split('/'))
        ensure_hashseed(hashseed_for(seed, tier, i), argv)
        return run_shard(pid, tier, seed, i, n, args.partial)
    ensure_hashseed(hashseed_for(seed, tier, 0), argv)

    nshards = args.shards or getattr(mod, 'SHARDS', {}).get(tier, 1)
    ctx = Ctx(pid, tier, seed)
    assert_repo_import(ctx)
    if nshards <= 1:
        rc = _reach_on()
        try:
            mod.run(ctx)
        except Exception as e:
            _crash(ctx, e)
        _reach_off(ctx, rc)
        return ctx.finish()

    # sharded run: one subprocess per shard (never multiprocessing.Pool), generous wall-clock watchdog
    SCRATCH_DIR.mkdir(exist_ok=True)
    tmo = getattr(mod, 'SHARD_TIMEOUT', {}).get(tier, 3000)
    stamp = f'{pid}-{os.getpid()}-{int(time.time())}'

    def one(i):
        partial = SCRATCH_DIR / f'partial-{stamp}-{i}.json'
        cmd = [sys.executable, '-m', 'kpverif.runner', pid, '--tier', tier, '--seed', str(seed),
               '--shard', f'{i}/{nshards}', '--partial', str(partial)]
        try:
            r = subprocess.run(cmd, cwd=str(ROOT), timeout=tmo, capture_output=True, text=True)
            if r.returncode != 0 or not partial.exists():
                return i, None, f'shard {i} exit={r.returncode}: {r.stderr[-600:]}'
            data = json.loads(partial.read_text(encoding='utf-8'))
            return i, data, None
        except subprocess.TimeoutExpired:
            return i, None, f'shard {i} exceeded the {tmo}s watchdog'
        finally:
            try:
                partial.unlink()
            except OSError:
                pass

    workers = min(nshards, int(os.environ.get('VERIF_JOBS', '16')))
    with ThreadPoolExecutor(max_workers=workers) as ex:
        results = list(ex.map(one, range(nshards)))
    for i, data, err in results:
        if err:
            ctx.inconc(err)
        else:
            ctx.merge_partial(data)
    ctx.extra['shards'] = nshards
    ctx.extra['shard_hashseeds'] = [hashseed_for(seed, tier, i) for i in range(nshards)]
    if hasattr(mod, 'post_merge'):
        mod.post_merge(ctx)
    return ctx.finish()


if __name__ == '__main__':
    sys.exit(main())
