"""C01 - normalised export is a fixed point of import-then-export; the normal form is canonical."""
from __future__ import annotations

import re

from ..common import subseed, Ctx
from ..gen.workload import make_doc, cases
from .. import kpx

PID = 'C01'
SHARDS = {'quick': 1, 'thorough': 16}


def strip_ekern(z: str) -> str:
    """Extended text -> plain text: delete the two separators, undo the '**e' header prefix."""
    lines = z.split('\n')
    out = []
    header_done = False
    for ln in lines:
        if not header_done and ln.startswith('**'):
            ln = '\t'.join('**' + c[3:] if c.startswith('**e') else c for c in ln.split('\t'))
            header_done = True
        out.append(ln.replace('@', '').replace('·', ''))
    return '\n'.join(out)


def first_diff(a, b):
    la, lb = a.split('\n'), b.split('\n')
    for i in range(max(len(la), len(lb))):
        x = la[i] if i < len(la) else '<missing>'
        y = lb[i] if i < len(lb) else '<missing>'
        if x != y:
            return f'line {i + 1}: {x!r} vs {y!r}'
    return 'no difference'


RE_ACC_DISPLAY = re.compile(r'(#{1,3}|-{1,3}|n)([XijZ])')
KEY_DISPLAY = 'chord-display-mark-after-accidental'


def display_mark_signature(a: str, b: str) -> bool:
    """The failure signature of the explored class: text b differs from text a only inside chord cells, and every differing chord
    note of b is the note of a with one of the characters X i j Z doubled directly after its accidental ('4c-X 4eX' -> '4c-XX 4eX':
    the signifier a chord note inherits from its neighbour is written right after the accidental, read back as a display mark of the
    accidental, and inherited once more)."""
    la, lb = a.split('\n'), b.split('\n')
    if len(la) != len(lb):
        return False
    seen = False
    for x, y in zip(la, lb):
        if x == y:
            continue
        cx, cy = x.split('\t'), y.split('\t')
        if len(cx) != len(cy):
            return False
        for p_, q_ in zip(cx, cy):
            if p_ == q_:
                continue
            np_, nq = p_.split(' '), q_.split(' ')
            if len(np_) < 2 or len(np_) != len(nq):
                return False
            for u, v in zip(np_, nq):
                if u == v:
                    continue
                m = RE_ACC_DISPLAY.search(u)
                if not m or v != u[:m.end()] + m.group(2) + u[m.end():]:
                    return False
                seen = True
    return seen


def classify(doc):
    """Mechanism class of a document, from the abstract form."""
    return 'dotted' if 'dotted' in doc.tags else 'plain'


def one(ctx: Ctx, cs: int, pname=None, **over):
    import kernpy as kp
    from ..monitors import exportcontract
    doc, pname = make_doc(cs, pname, **over)
    x = doc.text(0)
    x2 = doc.text(1)
    case = {'case_seed': cs, 'profile': pname, 'over': over, 'text': x}
    ctx.ev()
    ctx.mon('documents')
    d, e, exc = kpx.loads(x)
    if exc is not None or e:
        ctx.mon('precondition_failed')
        ctx.extra.setdefault('precondition_examples', [])
        if len(ctx.extra['precondition_examples']) < 3:
            ctx.extra['precondition_examples'].append({'case_seed': cs, 'error': str(exc or e[0])[:200]})
        return
    ctx.mon('precondition_ok')
    ctx.cls(*sorted(doc.tags))
    nontrivial = False
    for ln in doc.lines:
        for c in ln.cells:
            if c.kind in ('note', 'chord'):
                notes = [c.obj] if c.kind == 'note' else c.obj.notes
                if any(len(n.sigs) >= 2 for n in notes) or c.text != c.obj.plain():
                    nontrivial = True
    if nontrivial:
        ctx.nontriv(x)
    y, exc = kpx.dumps(d)
    if exc is not None:
        ctx.violation('export-raises', f'default export raised {type(exc).__name__}: {exc}', case)
        return
    # (1) idempotence in the default encoding
    ctx.mon('fixed_point_checks')
    d2, e2, exc = kpx.loads(y)
    if exc is not None or e2:
        ctx.violation('reimport-fails', f'the default export does not re-import cleanly: {str(exc or e2[0])[:200]}',
                      dict(case, export=y))
    else:
        y2, exc = kpx.dumps(d2)
        if exc is not None or y2 != y:
            key = 'not-a-fixed-point'
            if exc is None and 'chord_display_signifier_beside_accidental' in doc.tags and display_mark_signature(y, y2):
                key = KEY_DISPLAY
            ctx.violation(key, f'dumps(loads(dumps(d))) != dumps(d): {first_diff(y, y2 or "")}', dict(case, export=y))
    if 'separator_in_text_cell' in doc.tags:
        # lyrics / comments containing '@' or '·' (how the plain export treats them is C03's finding): only the fixed point of the
        # default export is judged on these documents - the extended format cannot carry such a cell unambiguously
        ctx.mon('documents_with_separator_text (fixed point only)')
        return
    # (2) through the extended encoding
    z, exc = kpx.dumps(d, encoding=kpx.Enc.eKern)
    if exc is not None:
        ctx.violation('export-raises', f'eKern export raised {type(exc).__name__}: {exc}', case)
        return
    ctx.mon('extended_round_trips')
    k = strip_ekern(z)
    if k != y:
        ctx.violation('ekern-strip-differs', f'eKern export with separators removed != default export: {first_diff(k, y)}',
                      dict(case, export=y))
    if set(doc.headers) == {'**kern'}:
        ctx.mon('get_kern_from_ekern_calls')
        k2 = kp.get_kern_from_ekern(z)
        if k2 != k:
            ctx.violation('get_kern_from_ekern', f'get_kern_from_ekern differs from separator removal: {first_diff(k2, k)}', case)
    d3, e3, exc = kpx.loads(k)
    if exc is not None or e3:
        ctx.violation('reimport-fails', f'the stripped eKern export does not re-import cleanly: {str(exc or e3[0])[:200]}',
                      dict(case, export=k))
    else:
        z2, exc = kpx.dumps(d3, encoding=kpx.Enc.eKern)
        if exc is not None or z2 != z:
            key = 'not-a-fixed-point-ekern'
            if exc is None and 'chord_display_signifier_beside_accidental' in doc.tags and \
                    display_mark_signature(strip_ekern(z), strip_ekern(z2)):
                key = KEY_DISPLAY
            ctx.violation(key, f'extended round trip differs: {first_diff(z, z2 or "")}', dict(case, export=z))
    # (3) canonicity: another spelling of the same abstract document
    if x2 != x:
        ctx.mon('canonicity_pairs')
        dB, eB, exc = kpx.loads(x2)
        if exc is not None or eB:
            ctx.mon('precondition_failed_rendering_B')
        else:
            yB, _ = kpx.dumps(dB)
            zB, _ = kpx.dumps(dB, encoding=kpx.Enc.eKern)
            if yB != y:
                ctx.violation('not-canonical', f'two spellings of the same notes normalise differently: {first_diff(y, yB or "")}',
                              dict(case, text_b=x2))
            elif zB != z:
                ctx.violation('not-canonical', f'two spellings normalise differently in eKern: {first_diff(z, zB or "")}',
                              dict(case, text_b=x2))
    log = exportcontract.drain()
    ctx.mon('export_contract_evaluations', log['evaluations'])
    ctx.mon('decorations_seen', log['dedup_seen'])
    ctx.mon('duplicate_decorations_dropped', log['dedup_dropped'])
    if log['problems']:
        ctx.violation('export-contract', log['problems'][0], case)
    if len(ctx.samples) < 2 and nontrivial and len(x) < 900:
        ctx.sample({'case_seed': cs, 'profile': pname, 'text': x, 'second_spelling': x2, 'normal_form': y})


def run(ctx: Ctx):
    from ..monitors import exportcontract, reach
    exportcontract.install()
    reach.install_listener_reach()
    ctx.rule = ('documents of the C01 generator (1-4 spines of all supported types, interpretations, every barline type, notes / '
                'rests / chords with hostile spellings: signifiers permuted, moved to all four positions, repeated), each in two '
                'spellings. Oracle: e==[] => reimport clean, dumps(loads(y))==y; strip(eKern)==kern; extended round trip; both '
                'spellings give the same kern and eKern text. Non-trivial = document with a note carrying >= 2 signifiers or a '
                'non-standard spelling; distinct by source text.')
    ctx.assumptions = ['canonicity is claimed for the 35 single-character signifiers that never combine (gen/notes.py)',
                       'text cells never contain the separator characters @ and · (see C03 finding)']
    n = 260 if ctx.tier == 'quick' else 1500
    for k_, cs in enumerate(cases(ctx, 'c01', n)):
        if k_ % 12 == 3:
            # explored class (known finding): a chord with an accidental on one note and one of X i j Z on another note
            ctx.mon('explored_chord_display_mix_documents')
            one(ctx, cs, 'kern_only', p_chord=0.45, p_chord_display_mix=0.6, measures=(1, 3))
        elif k_ % 12 == 7:
            one(ctx, cs, 'texty', separator_text=0.35)
        elif k_ % 6 == 5:
            # invisible barlines (=-, =3-||, =-;): whatever the export does with them (kernpy writes a null), the result is a fixed point
            one(ctx, cs, None, p_hidden_bar=0.3)
        else:
            one(ctx, cs)
    if ctx.tier == 'thorough':
        for cs in cases(ctx, 'c01long', 2):
            one(ctx, cs, 'default', long_rows=1500, measures=(20, 40), p_split=0.03)
    if ctx.shard is None or ctx.shard[0] == 0:
        # environment axis: source texts (hostile spellings: repeated signifiers, signifiers on some chord members only) and their own
        # normal forms, imported and exported in child interpreters under other hash seeds, warnings as errors, ASCII default encoding,
        # -O and another current directory: same errors (none), same normal form everywhere
        from .. import envchild
        from ..gen.workload import make_doc as _mk
        texts = []
        for i in range(4):
            dd, _ = _mk(subseed(ctx.seed, 'c01env', i), ['default', 'kern_only', 'splitty', 'long_tokens'][i], measures=(1, 3), hostile=0.9,
                        p_chord=0.4)
            t0 = dd.text(0)
            texts.append(t0)
            r0 = kpx.loads(t0)
            if r0[0] is not None and not r0[1]:
                y0 = kpx.dumps(r0[0])[0]
                if y0:
                    texts.append(y0)
        envchild.run_variants(ctx, texts)
    docs = ctx.monitor_events.get('documents', 0)
    okd = ctx.monitor_events.get('precondition_ok', 0)
    if docs and okd / docs < 0.95:
        ctx.inconc(f'only {okd}/{docs} generated documents import without errors (premise would be vacuous)')
    ctx.reach.update(reach.drain())
    need = ['BaseANTLRSpineParserListener.exitChord', 'BaseANTLRSpineParserListener.exitRest',
            'BaseANTLRSpineParserListener.exitDuration', 'BaseANTLRSpineParserListener.exitBarline']
    for nme in need:
        if ctx.reach.get(nme, 0) == 0 and ctx.shard is None:
            ctx.inconc(f'listener callback {nme} never fired')
    ctx.floors = {'fixed point': ('fixed_point_checks', 100), 'canonicity': ('canonicity_pairs', 50),
                  'export contract': ('export_contract_evaluations', 1000)}
    exportcontract.uninstall()
    reach.uninstall()


def replay(ctx, w):
    from ..monitors import exportcontract
    exportcontract.install()
    case = w.get('case', w)
    one(ctx, case['case_seed'], case.get('profile'), **case.get('over', {}))
    print(case.get('text', ''))
    exportcontract.uninstall()
