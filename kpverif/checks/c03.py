"""C03 - export conserves the score content cell for cell (export grid vs the generator's abstract cells)."""
from __future__ import annotations

from ..common import Ctx
from ..gen.workload import make_doc, cases
from ..model import grid as GM
from .. import kpx

PID = 'C03'
SHARDS = {'quick': 1, 'thorough': 16}


def export_rows_monitor(ctx, text, case, label):
    """DESIGN 3 'export rows': no empty cell, trailing newline, rectangular in the tab sense."""
    ctx.mon('export_rows_monitor')
    if text and not text.endswith('\n'):
        ctx.violation('export-rows', f'{label} export does not end with a newline', case)
    for i, row in enumerate(kpx.grid(text)):
        if any(c == '' for c in row):
            ctx.violation('export-rows', f'{label} export line {i + 1} has an empty cell: {row}', case)
            break


def _buggy_sep(text):
    """Known wrong behaviour (finding separator-in-text-cell): plain encodings delete @ and · from every token; a cell
    that becomes empty is replaced by the null token."""
    t = GM.strip_separators(text)
    return t if t != '' else '.'


def compare(ctx: Ctx, doc, y, z, case):
    """y: default export, z: eKern export.  Returns number of cells compared."""
    rows = GM.expected_rows(doc)
    exp = GM.suppress(rows)
    gy, gz = kpx.grid(y), kpx.grid(z)
    v = lambda key, what: ctx.violation(key, what, case)

    def shape_ok(g, e):
        return len(g) == len(e) and all(len(a) == len(b) for a, b in zip(g, e))

    exp_y = exp
    sep_cells = [c for r in rows for c in r if c.kind in ('text', 'fcomment') and ('@' in c.text or '·' in c.text)]
    known_sep = False
    if sep_cells:
        # does the kern export show exactly the known wrong behaviour?  (decided on the whole grid, cell by cell below)
        import copy
        rows_b = [[copy.copy(c) for c in r] for r in rows]
        for r in rows_b:
            for c in r:
                if c.kind in ('text', 'fcomment') and ('@' in c.text or '·' in c.text):
                    c.buggy = _buggy_sep(c.text)
        exp_b = [r for r in rows_b if not GM.is_null_row([getattr(c, 'buggy', c.text) for c in r])]
        direct = shape_ok(gy, exp) and all(
            oy == e.text for erow, yrow in zip(exp, gy) for e, oy in zip(erow, yrow) if e.kind in ('text', 'fcomment'))
        if not direct and shape_ok(gy, exp_b):
            exp_y = exp_b
            known_sep = True
    for label, g, e in (('default', gy, exp_y), ('eKern', gz, exp)):
        if not shape_ok(g, e):
            k = 0
            while k < min(len(g), len(e)) and len(g[k]) == len(e[k]):
                k += 1
            got = g[k] if k < len(g) else '<end>'
            want = [c.text for c in e[k]] if k < len(e) else '<end>'
            v('grid-shape', f'{label} export has {len(g)} lines, the source grid minus global comments and null lines has '
              f'{len(e)}; first line with a different cell count: {k + 1}: exported {got} expected {want}')
            return 0
    n = 0
    zmap = {}
    for erow, zrow in zip(exp, gz):
        for e, oz in zip(erow, zrow):
            zmap[(e.line, e.col)] = oz
    for r, (erow, yrow) in enumerate(zip(exp_y, gy)):
        for c, (e, oy) in enumerate(zip(erow, yrow)):
            n += 1
            oz = zmap.get((e.line, e.col))
            where = f'source line {e.line + 1} col {c} (export line {r + 1})'
            src = doc.lines[e.line].cells[c].text
            if oz is None:
                v('grid-shape', f'{where}: cell present in the default export but its line is missing from the eKern export')
                continue
            if e.kind == 'header':
                if oy != e.text or oz != '**e' + e.text[2:]:
                    v('header', f'{where}: header {e.text!r} exported as {oy!r} / {oz!r}')
            elif e.kind == 'bar':
                if oy not in e.accept or oz not in e.accept:
                    sfx = (e.obj or {}).get('suffix', '')
                    if sfx and oy == oz and oy in {a_[:-len(sfx)] for a_ in e.accept if a_.endswith(sfx)}:
                        # explored class: everything is as the statement says except that the tolerated end mark is gone
                        ctx.violation('barline-suffix-dropped', f'{where}: barline {src!r} exported as {oy!r}: the mark {sfx!r} at its end is '
                                      f'dropped (a barline loses only its number)', dict(case, where=where))
                    else:
                        v('barline', f'{where}: barline {src!r} exported as {oy!r} / {oz!r}, expected {e.text!r}')
            elif e.kind == 'note' or e.kind == 'rest':
                probs = GM.note_problems(oz, e.obj)
                if probs:
                    v('note-content', f'{where}: {src!r} exported as {oz!r}: {"; ".join(probs)}')
                if GM.strip_separators(oz) != oy:
                    v('kern-vs-ekern', f'{where}: kern {oy!r} is not eKern {oz!r} without separators')
            elif e.kind == 'chord':
                parts = oz.split(' ')
                notes = e.obj.notes
                if len(parts) != len(notes):
                    v('chord-notes', f'{where}: chord {src!r} exported as {oz!r}: {len(parts)} notes instead of {len(notes)}')
                else:
                    for p, nt in zip(parts, notes):
                        probs = GM.note_problems(p, nt, union=e.obj.union_for(nt))
                        if probs:
                            v('note-content', f'{where}: chord note exported as {p!r} (chord {src!r}): {"; ".join(probs)}')
                            break
                if GM.strip_separators(oz) != oy:
                    v('kern-vs-ekern', f'{where}: kern {oy!r} is not eKern {oz!r} without separators')
            else:
                if oz != e.text:
                    v('verbatim-cell', f'{where}: {e.kind} cell {e.text!r} exported as {oz!r} in eKern')
                if oy != e.text:
                    if known_sep and hasattr(e, 'buggy') and oy == e.buggy:
                        v('separator-in-text-cell', f'{where}: {e.kind} cell {e.text!r} exported as {oy!r} in the default encoding '
                          f'(separator characters deleted from a non-note token)')
                    else:
                        v('verbatim-cell', f'{where}: {e.kind} cell {e.text!r} exported as {oy!r}')
    return n


def nontrivial(doc):
    kinds = {c.kind for ln in doc.lines for c in ln.cells}
    rich = any(c.kind == 'note' and (c.obj.acc or c.obj.dots or c.obj.grace or (c.obj.dur and '%' in c.obj.dur))
               for ln in doc.lines for c in ln.cells)
    return len(kinds) >= 3 and rich


def one(ctx: Ctx, cs, pname=None, **over):
    doc, pname = make_doc(cs, pname, **over)
    x = doc.text(0)
    case = {'case_seed': cs, 'profile': pname, 'over': over, 'text': x}
    ctx.ev()
    ctx.mon('documents')
    d, e, exc = kpx.loads(x)
    if exc is not None or e:
        ctx.mon('precondition_failed')
        return
    ctx.mon('precondition_ok')
    ctx.cls(*sorted(doc.tags))
    y, exc = kpx.dumps(d)
    # the same default export through ONE default ExportOptions object used for every document of the run
    kpx.fixed_options_check(ctx, d, {}, y, exc, {'case_seed': cs, 'text': x})
    z, exc2 = kpx.dumps(d, encoding=kpx.Enc.eKern)
    if exc or exc2:
        ctx.violation('export-raises', f'export raised {exc or exc2}', case)
        return
    export_rows_monitor(ctx, y, case, 'kern')
    export_rows_monitor(ctx, z, case, 'eKern')
    n = compare(ctx, doc, y, z, case)
    ctx.mon('cells_compared', n)
    # the same conservation must hold for the same Document after other exports were taken from it
    import random
    import kernpy as kp
    rng = random.Random(cs ^ 0xC03)
    nsp = len(doc.headers)
    M = len(d.measure_start_tree_stages)
    for _ in range(3):
        kw = {}
        if M and rng.random() < 0.7:
            a_ = rng.randint(1, M)
            kw['from_measure'] = a_
            if rng.random() < 0.6:
                kw['to_measure'] = rng.randint(a_, M)
        if rng.random() < 0.6:
            kw['spine_ids'] = sorted(rng.sample(range(nsp), rng.randint(1, nsp)))
        if rng.random() < 0.4:
            kw['spine_types'] = rng.sample(sorted(set(doc.headers)), 1)
        if rng.random() < 0.5:
            kw['encoding'] = rng.choice(kpx.ENCODINGS)
        if rng.random() < 0.4:
            kw['exclude'] = {rng.choice(list(kp.TokenCategory))}
        kpx.dumps(d, **kw)
        ctx.mon('intervening_exports')
    y_again, exc3 = kpx.dumps(d)
    if exc3 is not None or y_again != y:
        ctx.violation('export-changes-after-other-exports', 'the default export of the same Document differs after other exports '
                      f'(measure ranges, spine selections, encodings, filters) were taken from it: {"raised " + repr(exc3) if exc3 else ""}', case)
    if nontrivial(doc):
        ctx.nontriv(x)
    if len(ctx.samples) < 2 and len(x) < 700 and nontrivial(doc):
        ctx.sample({'case_seed': cs, 'profile': pname, 'text': x, 'export': y})


def ragged(ctx: Ctx, cs):
    """Texts that are not rectangular: one line with a cell too many, one line that lost its last cell (more lines follow).  Such a text
    is refused or reported - or, if it does import without errors, the statement applies to it like to any other: the export has the
    source's grid, no cell dropped."""
    import random
    rng = random.Random(cs ^ 0x4A6)
    doc, pname = make_doc(cs, ['simple', 'kern_only', 'texty'][cs % 3], p_null=0.0, p_null_run=0.0, p_gcomment=0.0, p_pre_gcomment=0.0,
                          p_post_gcomment=0.0, p_blank=0.0, measures=(1, 3))
    lines = doc.text(0).split('\n')
    if lines and lines[-1] == '':
        lines = lines[:-1]
    body = [i for i, ln in enumerate(lines) if i > 0 and i < len(lines) - 1 and not ln.startswith('!!')]
    if len(body) < 2:
        return
    i = rng.choice(body)
    cells = lines[i].split('\t')
    mode = rng.choice(['surplus', 'surplus', 'short'])
    if mode == 'surplus':
        extra = rng.choice(['4c', 'la', '.', '*', '!x', '=', '8r'])
        if lines[i].startswith('*') and not extra.startswith('*'):
            extra = '*MM60'
        if lines[i].startswith('=') and not extra.startswith('='):
            extra = '='
        if lines[i].startswith('!') and not extra.startswith('!'):
            extra = '!x'
        cells = cells + [extra]
    else:
        if len(cells) < 2:
            return
        cells = cells[:-1]
    lines[i] = '\t'.join(cells)
    x = '\n'.join(lines) + '\n'
    ctx.ev()
    ctx.mon('ragged_texts')
    d, e, exc = kpx.loads(x)
    if exc is not None:
        ctx.mon(f'ragged_text_refused:{mode}')
        return
    if e:
        ctx.mon(f'ragged_text_reported:{mode}')
        return
    ctx.mon(f'ragged_text_imported_without_errors:{mode}')
    y, err = kpx.dumps(d)
    case = {'case_seed': cs, 'text': x, 'ragged': mode, 'line': i + 1}
    if err is not None:
        ctx.violation('export-raises', f'default export of a text that imported without errors raised {type(err).__name__}: {err}', case)
        return
    want = [ln.split('\t') for ln in lines if not ln.startswith('!!') and ln != '' and not all(c in ('.', '*') for c in ln.split('\t'))]
    got = kpx.grid(y)
    if [len(r) for r in got] != [len(r) for r in want]:
        j = next((k for k, (a, b) in enumerate(zip(got, want)) if len(a) != len(b)), min(len(got), len(want)))
        ctx.violation('grid-shape', f'a text with a {mode} line ({i + 1}: {lines[i]!r}) imports without errors, but its export has not the '
                      f'source\'s grid: line {j + 1} is {got[j] if j < len(got) else None} for {want[j] if j < len(want) else None}', case)


def run(ctx: Ctx):
    kpx.enable_bystanders(ctx)
    ctx.rule = ('documents of the C01 generator; expected grid = source rows minus global comments, blank lines and all-null rows; '
                'non-note cells verbatim, barlines = "="/"==" + type + fermata (number removed), each note/rest checked structurally on '
                'the eKern export (duration marks multiset, pitch letters, accidental, signifier set; chord notes: own <= exported <= '
                'chord union), kern export = eKern without separators; row/column positions compared. The default export is taken again after three other exports of the same '
                'Document and must be unchanged. A second workload explores text cells containing the separator characters. Non-trivial = >= 3 cell kinds and a note with accidental or non-plain '
                'duration; distinct by source text.')
    ctx.assumptions = ['the abstract document of gen/doc.py is the independent description of every cell',
                       ':!: may be exported as :!: or as the documented correction :|!|:']
    n = 260 if ctx.tier == 'quick' else 1500
    for cs in cases(ctx, 'c03', n):
        one(ctx, cs)
    for cs in cases(ctx, 'c03sep', 30 if ctx.tier == 'quick' else 100):
        one(ctx, cs, 'texty', separator_text=0.3)
    # explored class (known finding): the marks the grammar tolerates at the end of a barline
    for cs in cases(ctx, 'c03barsuffix', 16 if ctx.tier == 'quick' else 60):
        ctx.mon('explored_barline_suffix_documents')
        one(ctx, cs, ['kern_only', 'default'][cs % 2], p_bar_suffix=0.5, measures=(2, 4))
    for cs in cases(ctx, 'c03ragged', 60 if ctx.tier == 'quick' else 200):
        ragged(ctx, cs)
    if ctx.tier == 'thorough':
        for cs in cases(ctx, 'c03long', 2):
            one(ctx, cs, 'default', long_rows=1200, measures=(20, 40), p_split=0.03)
    docs = ctx.monitor_events.get('documents', 0)
    okd = ctx.monitor_events.get('precondition_ok', 0)
    if docs and okd / docs < 0.95:
        ctx.inconc(f'only {okd}/{docs} generated documents import without errors')
    ctx.floors = {'cells': ('cells_compared', 5000)}


def replay(ctx, w):
    case = w.get('case', w)
    if 'ragged' in case:
        ragged(ctx, case['case_seed'])
        print(case.get('text', ''))
        return
    one(ctx, case['case_seed'], case.get('profile'), **case.get('over', {}))
    print(case.get('text', ''))
