"""C06 - spine selection is column projection (projection model vs export, all subsets of ids and types)."""
from __future__ import annotations

import random

import itertools

from ..common import Ctx
from ..gen.workload import make_doc, cases
from ..model import grid as GM
from .. import kpx

PID = 'C06'
_shared_options = {}
SHARDS = {'quick': 1, 'thorough': 16}


def subsets(items):
    items = list(items)
    for r in range(len(items) + 1):
        for c in itertools.combinations(items, r):
            yield list(c)


def project_text(agrid_rows, keep, header_prefix=None):
    """rows: list of rows of (text, spine) -> projected text with null-row suppression."""
    out = []
    for row in agrid_rows:
        cells = [t for t, sp in row if sp in keep]
        if not cells or GM.is_null_row(cells):
            continue
        out.append('\t'.join(cells))
    return ''.join(ln + '\n' for ln in out)


def one(ctx: Ctx, cs, pname=None, derive=None, **over):
    import kernpy as kp
    doc, pname = make_doc(cs, pname, **over)
    x = doc.text(0)
    ctx.ev()
    ctx.mon('documents')
    d, e, exc = kpx.loads(x)
    if exc is not None or e:
        ctx.mon('precondition_failed')
        return
    if derive:
        # a Document obtained through the API (result of a transposition / concat / clone): projection acts on it as on any other
        from . import measures_common as MC
        d = MC.derive_document(ctx, d, doc, x, cs, derive)
        if d is None:
            return
    ctx.cls(*sorted(doc.tags))
    case = {'case_seed': cs, 'profile': pname, 'over': over, 'text': x, 'derive': derive}
    n = len(doc.headers)
    types = sorted(set(doc.headers))
    known = set(kpx.T.HEADERS)
    if any(h not in known for h in doc.headers):
        ctx.cls('unknown_spine_type')
    fulls = {}
    for name in ('kern', 'ekern'):
        # the "full export": every spine of the document, also those of a type outside the default header set
        full, err = kpx.dumps(d, encoding=kpx.ENC_BY_NAME[name], spine_types=types)
        if err is not None:
            ctx.mon('precondition_failed')
            return
        ag = GM.annotate(doc, d, full if name == 'ekern' else kpx.dumps(d, encoding=kpx.Enc.eKern, spine_types=types)[0])
        if ag is None:
            ctx.mon('alignment_failed (C03 decides)')
            return
        g = kpx.grid(full)
        if len(g) != len(ag) or any(len(a) != len(b) for a, b in zip(g, ag)):
            ctx.mon('alignment_failed (C03 decides)')
            return
        fulls[name] = (full, [[(t, c.spine) for t, c in zip(grow, arow)] for grow, arow in zip(g, ag)])
    if n <= 5:
        id_sets = list(subsets(range(n)))
    else:
        # many spines: the empty set, every single spine, every complement of one, the full set and a random sample of the rest
        srng = random.Random(cs ^ 0x5B5)
        id_sets = [[]] + [[i] for i in range(n)] + [[j for j in range(n) if j != i] for i in range(n)] + [list(range(n))]
        id_sets += [sorted(srng.sample(range(n), srng.randint(2, n - 2))) for _ in range(24)]
        ctx.cls('many_spines (id subsets sampled)')
    id_sets += [[n + 3], [0, n + 1], None]
    type_sets = list(subsets(types)) + [['**mens'], types + ['**mens'], None]
    k = 0
    nontriv_doc = n >= 2 and 'split_in_nonfirst_spine' in doc.tags
    for ids in id_sets:
        for tys in type_sets:
            if ids is not None and tys is not None and 0 < len(ids) < n and 0 < len(tys) < len(types) and (k % 3):
                k += 1
                continue  # thin out the full product a little; every single-option subset is always run
            k += 1
            # spine_types omitted = the documented default set of headers (unknown types are not exported by default)
            keep = {i for i in range(n) if (ids is None or i in ids) and
                    (doc.headers[i] in tys if tys is not None else doc.headers[i] in known)}
            name = 'kern' if k % 2 else 'ekern'
            full, rows = fulls[name]
            exp = project_text(rows, keep)
            kw = {}
            if ids is not None:
                kw['spine_ids'] = [list, tuple, set][k % 3](ids) if ids else list(ids)
            if tys is not None:
                kw['spine_types'] = [list, tuple, set][(k // 3) % 3](tys) if tys else list(tys)
            ctx.ev()
            ctx.mon('projected_exports')
            out, err = kpx.dumps(d, encoding=kpx.ENC_BY_NAME[name], **kw)
            c2 = dict(case, spine_ids=ids, spine_types=tys, encoding=name)
            if err is not None:
                ctx.violation('projection-raises', f'spine_ids={ids} spine_types={tys}: {type(err).__name__}: {err}', c2)
                continue
            if out != exp:
                go, ge = out.split('\n'), exp.split('\n')
                j = next((i for i in range(min(len(go), len(ge))) if go[i] != ge[i]), min(len(go), len(ge)))
                ctx.violation('projection-mismatch', f'spine_ids={ids} spine_types={tys} [{name}]: line {j + 1}: exported '
                              f'{go[j] if j < len(go) else "<end>"!r}, projection of the full export gives '
                              f'{ge[j] if j < len(ge) else "<end>"!r}', c2)
            elif nontriv_doc and 0 < len(keep) < n:
                ctx.nontriv(cs, tuple(ids) if ids is not None else None, tuple(tys) if tys is not None else None)
    # projection of a score cut at a measure (to_measure): the synthesised terminator line is part of the projection too
    from ..model import measures as MM
    from ..model import humdrum as H
    M = len(MM.measure_starts(doc))
    if M >= 1 and n >= 2:
        prng = random.Random(cs ^ 0xC06)
        for _ in range(6):
            b = prng.randint(1, M)
            ids = sorted(prng.sample(range(n), prng.randint(1, n - 1)))
            cut, err = kpx.dumps(d, to_measure=b, spine_types=types)
            if err is not None:
                ctx.mon('cut_export_raised (C07 decides)')
                continue
            keep = {i for i in ids if doc.headers[i] in known}
            exp = H.project(cut, keep)
            if exp is None:
                ctx.mon('cut_export_not_trackable (C08 decides)')
                continue
            ctx.ev()
            ctx.mon('projected_cut_exports')
            out, err = kpx.dumps(d, to_measure=b, spine_ids=ids)
            c2 = dict(case, spine_ids=ids, to_measure=b)
            if err is not None:
                ctx.violation('projection-raises', f'to_measure={b} spine_ids={ids}: {type(err).__name__}: {err}', c2)
            elif out != exp:
                go, ge = out.split('\n'), exp.split('\n')
                j = next((i for i in range(min(len(go), len(ge))) if go[i] != ge[i]), min(len(go), len(ge)))
                ctx.violation('projection-mismatch', f'to_measure={b} spine_ids={ids}: line {j + 1}: exported '
                              f'{go[j] if j < len(go) else "<end>"!r}, projection of the same cut of all spines gives '
                              f'{ge[j] if j < len(ge) else "<end>"!r}', c2)
    # the same selections through ExportOptions objects that are REUSED for every document of the run (kp.export)
    import warnings
    for tys in type_sets:
        if tys is None:
            continue
        key = tuple(tys)
        if key not in _shared_options:
            _shared_options[key] = kp.ExportOptions(spine_types=list(tys))
        keep = {i for i in range(n) if doc.headers[i] in tys}
        ctx.ev()
        ctx.mon('reused_options_exports')
        try:
            with warnings.catch_warnings():
                warnings.simplefilter('ignore')
                out = kp.export(d, _shared_options[key])
        except Exception as ex:
            ctx.violation('projection-raises', f'export with a reused ExportOptions(spine_types={tys}) raised {type(ex).__name__}: {ex}',
                          dict(case, spine_types=tys, reused_options=True))
            continue
        exp = project_text(fulls['kern'][1], keep)
        if out != exp:
            ctx.violation('projection-mismatch', f'export(doc, options) with an ExportOptions(spine_types={tys}) object reused from earlier '
                          f'documents differs from the projection of the full export', dict(case, spine_types=tys, reused_options=True))
    # spine-type query = header line of the projection
    for tys in type_sets:
        ctx.ev()
        ctx.mon('spine_type_queries')
        exp = [h for h in doc.headers if (h in tys if tys is not None else h in known)]
        try:
            got = kp.spine_types(d, tys)
        except Exception as ex:
            ctx.violation('spine-types-raises', f'spine_types(headers={tys}) raised {type(ex).__name__}: {ex}', dict(case, spine_types=tys))
            continue
        if got != exp:
            ctx.violation('spine-types-query', f'spine_types(headers={tys}) = {got}, header line of the projection is {exp}',
                          dict(case, spine_types=tys))
        # the same query through an Exporter object that is kept for the whole run (the package function builds one per call)
        try:
            ctx.mon('spine_type_queries_through_long_lived_exporter')
            got2 = kpx.long_exporter().get_spine_types(d, spine_types=tys)
        except Exception as ex:
            ctx.violation('spine-types-raises', f'Exporter.get_spine_types(spine_types={tys}) on a long-lived Exporter raised '
                          f'{type(ex).__name__}: {ex}', dict(case, spine_types=tys))
            continue
        if got2 != exp:
            ctx.violation('spine-types-query', f'get_spine_types(spine_types={tys}) of an Exporter object used before = {got2}, header line '
                          f'of the projection is {exp}', dict(case, spine_types=tys))
    if len(ctx.samples) < 2 and nontriv_doc and len(x) < 500:
        ctx.sample({'case_seed': cs, 'text': x, 'spine_ids': [n - 1], 'export': kpx.dumps(d, spine_ids=[n - 1])[0]})


def run(ctx: Ctx):
    ctx.rule = ('documents of the C01 generator (up to 4 spines, nested splits, joins, early terminators) x every subset of spine ids '
                '(incl. empty and absent ids) x every subset of the document\'s spine types (incl. empty and absent types) and their '
                'combinations; expected = the real full export with the columns of unselected spines deleted (column -> spine from the '
                'spine-path model) and all-null lines dropped, compared byte for byte in kern and eKern; a quarter of the documents carry a spine of '
                'an unknown type (**foo, **silbe), which is exported only when its type is named; spine_types(doc, headers) = '
                'header line of the projection. Non-trivial = proper non-empty selection on a document with >= 2 spines and a split in '
                'a non-first spine; distinct by (document, ids, types).')
    ctx.assumptions = ['column -> spine mapping from model/spinepaths.py']
    n = 110 if ctx.tier == 'quick' else 600
    from ..gen.doc import ALL_TYPES
    for k, cs in enumerate(cases(ctx, 'c06', n)):
        if k % 4 == 3:
            one(ctx, cs, min_spines=2, p_split=0.25, types=ALL_TYPES + ('**foo', '**silbe', '**foo'))
        else:
            one(ctx, cs, min_spines=2, p_split=0.25)
    for k, cs in enumerate(cases(ctx, 'c06-derived', n // 8)):
        one(ctx, cs, derive=['transposed', 'concat', 'transposed', 'clone'][k % 4], min_spines=2, p_split=0.2, p_rest=0.3)
    ctx.floors = {'projections': ('projected_exports', 1500), 'queries': ('spine_type_queries', 300)}


def replay(ctx, w):
    case = w.get('case', w)
    one(ctx, case['case_seed'], case.get('profile'), derive=case.get('derive'), **case.get('over', {}))
    print(case.get('text', ''))
