"""C14 - the read-only API is pure and history-independent (deep snapshot before/after every call; result vs fresh copy)."""
from __future__ import annotations

import contextlib
import io
import os
import random
import re
import shutil

from ..common import Ctx, SCRATCH_DIR
from ..gen.workload import make_doc, cases
from ..model import cattree as CT
from .. import kpx

PID = 'C14'
SHARDS = {'quick': 1, 'thorough': 16}

RE_NODE = re.compile(r'node\d+')
RE_ID = re.compile(r'#\d+')


def norm_graph(s):
    m1, m2 = {}, {}
    s = RE_NODE.sub(lambda m: m1.setdefault(m.group(0), f'node<{len(m1)}>'), s)
    return RE_ID.sub(lambda m: m2.setdefault(m.group(0), f'#<{len(m2)}>'), s)


def norm(v):
    T = kpx.T
    if isinstance(v, T.AbstractToken):
        return ('tok',) + tuple(kpx.tok_fp(v))
    if isinstance(v, (list, tuple)):
        return tuple(norm(x) for x in v)
    if isinstance(v, dict):
        return tuple(sorted((str(k), norm(x)) for k, x in v.items()))
    if isinstance(v, (set, frozenset)):
        return tuple(sorted(map(str, v)))
    return v


def make_ops(rng, doc, scratch):
    """-> list of (description, callable(real_doc) -> result, args_holder) ; callables capture fresh argument objects
    whose value is snapshotted to detect mutation of caller-owned option objects."""
    import kernpy as kp
    TC = kp.TokenCategory
    n = len(doc.headers)
    types = sorted(set(doc.headers))
    ops = []

    def rand_cats(k=3):
        return {TC[c] for c in rng.sample(CT.ORDER, rng.randint(1, k))}

    def op_dumps():
        kw = {}
        if rng.random() < 0.5:
            kw['encoding'] = rng.choice(kpx.ENCODINGS)
        if rng.random() < 0.4:
            kw['include'] = rand_cats(5)
        if rng.random() < 0.4:
            kw['exclude'] = rand_cats(2)
        if rng.random() < 0.3:
            kw['spine_ids'] = rng.sample(range(n + 1), rng.randint(0, n))
        if rng.random() < 0.3:
            kw['spine_types'] = rng.sample(types + ['**mens'], rng.randint(0, len(types)))
        if rng.random() < 0.4:
            kw['from_measure'] = rng.choice([0, 1, 1, 2, 3, -1, 50])
        if rng.random() < 0.4:
            kw['to_measure'] = rng.choice([1, 2, 3, 0, 99])
        if rng.random() < 0.1:
            kw['include'] = ['PITCH']          # invalid: raises ValueError
        if rng.random() < 0.1:
            kw['show_measure_numbers'] = True
        holder = {k: (set(v) if isinstance(v, set) else list(v) if isinstance(v, list) else v) for k, v in kw.items()}
        return (f'dumps({ {k: (sorted(map(str, v)) if isinstance(v, (set, list)) else str(v)) for k, v in kw.items()} })',
                lambda d: kp.dumps(d, **kw), (kw, holder))

    def op_tokens():
        f = rng.choice([None, rand_cats(3), [TC.NOTE_REST], TC.BARLINES])
        which = rng.choice(['get_all_tokens', 'get_unique_tokens', 'get_all_tokens_encodings', 'get_unique_token_encodings', 'frequencies'])
        if which == 'frequencies':
            return (f'frequencies({f})', lambda d: d.frequencies(token_categories=f), None)
        return (f'{which}({f})', lambda d: getattr(d, which)(filter_by_categories=f), None)

    def op_misc(force=None):
        w = force or rng.choice(['metacomments', 'metacomments_key', 'spine_types', 'monophonic', 'iter', 'measures_count', 'first_measure',
                        'spine_ids', 'header_nodes', 'voices', 'voices_clean', 'graph_stdout', 'graph_file', 'next', 'leaves',
                        'export_options_reuse', 'spine_count', 'dump_file', 'deprecated_export', 'clone_export', 'match_self',
                        'header_stage', 'deprecated_spine_types', 'tokens_to_encodings', 'partial_iteration', 'token_protocol',
                        'token_protocol', 'own_options_edited'])
        if w == 'dump_file':
            enc = rng.choice(kpx.ENCODINGS)

            def g(d):
                p = os.path.join(scratch, f'o{rng.randrange(10 ** 9)}', 'out.krn')
                kp.dump(d, p, encoding=enc)
                with open(p, encoding='utf-8', newline='') as fh:
                    s_ = fh.read()
                shutil.rmtree(os.path.dirname(p), ignore_errors=True)
                return s_
            return (f'dump(doc, file, {enc.name})', g, None)
        if w == 'deprecated_export':
            from ..model import measures as MM
            M_ = len(MM.measure_starts(doc))
            okw = dict(spine_types=[list, tuple][rng.randrange(2)](types), kern_type=rng.choice(kpx.ENCODINGS),
                       token_categories=[list, set, tuple][rng.randrange(3)](c for c in TC if rng.random() < 0.8))
            if rng.random() < 0.5 and M_ >= 1:
                okw['to_measure'] = rng.choice([M_, M_, rng.randint(1, M_), M_ + 1])
            if rng.random() < 0.3 and M_ >= 1:
                okw['from_measure'] = rng.randint(1, M_)
            if rng.random() < 0.4:
                okw['spine_ids'] = rng.choice([None, sorted(rng.sample(range(n), rng.randint(1, n)))])
            o = kp.ExportOptions(**okw)
            o0 = {f: kpx._freeze(getattr(o, f)) for f in kpx.OPT_FIELDS}

            def g(d):
                import warnings
                with warnings.catch_warnings():
                    warnings.simplefilter('ignore')
                    return kp.export(d, o)
            return (f'export(doc, ExportOptions({sorted(okw)})) [options object compared field by field]', g, ({'options': o}, {'options': o0}))
        if w == 'own_options_edited':
            # a caller who takes a default options object and edits ITS containers in place (his object, his business): the library's
            # own defaults - the constants fingerprinted after every call - and every later default export stay what they were
            extra_t = rng.choice(['**foo', '**silbe'])
            drop_t = rng.choice(sorted(set(doc.headers)))

            def g(d):
                o = kp.ExportOptions() if rng.random() < 0.5 else kp.ExportOptions.default()
                for fld in ('spine_types', 'token_categories'):
                    v = getattr(o, fld, None)
                    if isinstance(v, set):
                        v.discard(drop_t)
                        v.add(extra_t) if fld == 'spine_types' else v.discard(kp.TokenCategory.DECORATION)
                    elif isinstance(v, list):
                        if drop_t in v:
                            v.remove(drop_t)
                        if fld == 'token_categories' and kp.TokenCategory.DECORATION in v:
                            v.remove(kp.TokenCategory.DECORATION)
                return (kp.dumps(d), kp.spine_types(d), sorted(kp.ExportOptions().spine_types), len(kp.ExportOptions().token_categories))
            return ('a default ExportOptions object edited in place by its owner, then default exports', g, None)
        if w == 'token_protocol':
            # reading a token is reading the document: str / repr / format / export() without arguments / == / hash on the tokens the
            # queries hand out and on the nodes of the tree (what print(token) or a debugger does)
            def g(d):
                out = []
                toks = d.get_all_tokens()
                for t_ in toks:
                    row = []
                    for f_ in (str, repr, lambda v: format(v), lambda v: v.export(), lambda v: v == v, lambda v: v == toks[0],
                               lambda v: v != toks[-1], lambda v: hash(v) is not None):
                        try:
                            row.append(kpx._RE_ADDR.sub('0x', str(f_(t_))))
                        except Exception as e_:  # noqa
                            row.append('raised ' + type(e_).__name__)
                    out.append(tuple(row))
                for st in d.tree.stages:
                    for nd in st:
                        try:
                            out.append(RE_ID.sub('#', kpx._RE_ADDR.sub('0x', str(nd))))
                        except Exception as e_:  # noqa
                            out.append('raised ' + type(e_).__name__)
                return out
            return ('str / repr / format / export() / == / hash of every token; str of every node', g, None)
        if w == 'clone_export':
            return ('dumps(doc.clone())', lambda d: kp.dumps(d.clone()), None)
        if w == 'match_self':
            return ('Document.match(doc, doc)', lambda d: (kp.Document.match(d, d), kp.Document.match(d, d, check_core_spines_only=True)), None)
        if w == 'header_stage':
            return ('get_header_stage()', lambda d: [n_.token for n_ in d.get_header_stage()], None)
        if w == 'deprecated_spine_types':
            def g(d):
                import warnings
                with warnings.catch_warnings():
                    warnings.simplefilter('ignore')
                    return kp.get_spine_types(d, ['**kern'])
            return ('get_spine_types(doc, [**kern]) [deprecated API]', g, None)
        if w == 'tokens_to_encodings':
            return ('tokens_to_encodings(get_all_tokens())', lambda d: kp.Document.tokens_to_encodings(d.get_all_tokens()), None)
        if w == 'partial_iteration':
            def g(d):
                it = iter(d)
                first = next(it, None)
                out = []
                for m in d:
                    out.append(m)
                    if len(out) == 2:
                        break
                return (first, out)
            return ('partial iteration (next(iter(doc)); loop with break)', g, None)
        if w == 'metacomments':
            return ('get_metacomments()', lambda d: d.get_metacomments(), None)
        if w == 'metacomments_key':
            return ('get_metacomments(COM, clear)', lambda d: d.get_metacomments(KeyComment='COM', clear=True), None)
        if w == 'spine_types':
            h = rng.choice([None, ['**kern'], [], types])
            return (f'spine_types({h})', lambda d: kp.spine_types(d, h), None)
        if w == 'monophonic':
            return ('is_monophonic', lambda d: kp.is_monophonic(d), None)
        if w == 'iter':
            return ('list(doc)', lambda d: list(d), None)
        if w == 'next':
            return ('next(doc)', lambda d: next(d), None)
        if w == 'measures_count':
            return ('measures_count()', lambda d: d.measures_count(), None)
        if w == 'first_measure':
            return ('get_first_measure()', lambda d: d.get_first_measure(), None)
        if w == 'spine_ids':
            return ('get_spine_ids()', lambda d: d.get_spine_ids(), None)
        if w == 'header_nodes':
            return ('get_header_nodes()', lambda d: d.get_header_nodes(), None)
        if w == 'voices':
            return ('get_voices()', lambda d: d.get_voices(), None)
        if w == 'voices_clean':
            return ('get_voices(clean=True)', lambda d: d.get_voices(clean=True), None)
        if w == 'leaves':
            return ('get_leaves()', lambda d: [n.token for n in d.get_leaves()], None)
        if w == 'spine_count':
            return ('get_spine_count()', lambda d: d.get_spine_count(), None)
        if w == 'graph_stdout':
            def g(d):
                buf = io.StringIO()
                with contextlib.redirect_stdout(buf):
                    kp.graph(d, None)
                return norm_graph(buf.getvalue())
            return ('graph(doc, None)', g, None)
        if w == 'graph_file':
            def g(d):
                p = os.path.join(scratch, f'g{rng.randrange(10 ** 9)}.dot')
                kp.graph(d, p)
                with open(p, encoding='utf-8') as fh:
                    s = fh.read()
                os.unlink(p)
                return norm_graph(s)
            return ('graph(doc, file)', g, None)
        opts = kp.ExportOptions(spine_types=['**kern'], token_categories=list(kp.BEKERN_CATEGORIES), kern_type=kp.Encoding.eKern)

        def reuse(d):
            a = kp.Exporter().export_string(d, opts)
            b = kp.Exporter().export_string(d, opts)
            return (a, b, a == b)
        return ('Exporter.export_string(options reused twice)', reuse, None)
    for _ in range(rng.randint(6, 12)):
        r = rng.random()
        ops.append(op_dumps() if r < 0.45 else op_tokens() if r < 0.7 else op_misc())
    # every history exports once through a caller-owned ExportOptions object (compared field by field afterwards)
    ops.insert(rng.randrange(len(ops) + 1), op_misc('deprecated_export'))
    return ops


def call(fn, d):
    try:
        return ('ok', norm(fn(d)))
    except Exception as e:  # noqa
        return ('raised', type(e).__name__, str(e)[:120])


def one(ctx: Ctx, cs, derive=None):
    import kernpy as kp_
    doc, pname = make_doc(cs, None)
    x = doc.text(0)
    ctx.ev()
    ctx.mon('histories')
    d, e, exc = kpx.loads(x)
    if exc is not None:
        ctx.mon('precondition_failed')
        return
    real_loads = kpx.loads
    if derive:
        # the same history on a Document obtained through the API (result of a transposition / a clone): "a freshly imported copy" is
        # then a freshly DERIVED copy of a fresh import
        from . import measures_common as MC

        def derived_loads(text, cs=cs, derive=derive):
            d_, e_, x_ = real_loads(text)
            if d_ is None:
                return d_, e_, x_
            out = MC.derive_document(ctx, d_, doc, text, cs, derive)
            return (out, e_, None) if out is not None else (None, None, RuntimeError('derivation refused'))
        d, e, exc = derived_loads(x)
        if d is None:
            return
        kpx.loads = derived_loads
    try:
        return _one_history(ctx, cs, doc, pname, x, d, kp_, derive)
    finally:
        kpx.loads = real_loads


def _one_history(ctx, cs, doc, pname, x, d, kp_, derive):
    scratch = str(SCRATCH_DIR / f'c14-{os.getpid()}')
    os.makedirs(scratch, exist_ok=True)
    rng = random.Random(cs ^ 0xC14)
    ops = make_ops(rng, doc, scratch)
    snap0 = kpx.snapshot(d)
    const0 = kpx.constants_fp()
    # two imports of one text are indistinguishable
    d_twin, _, _ = kpx.loads(x)
    if kpx.snapshot(d_twin) != snap0:
        ctx.violation('imports-differ', 'two imports of the same text have different snapshots', {'case_seed': cs, 'text': x})
    log = []
    raised = 0
    for i, (desc, fn, holder) in enumerate(ops):
        ctx.ev()
        ctx.mon('calls')
        rstate = rng.getstate()
        res = call(fn, d)
        after = kpx.snapshot(d)
        ctx.mon('snapshots')
        consts = kpx.constants_fp()
        log.append((desc, res[0]))
        case = {'case_seed': cs, 'text': x, 'history': [l[0] for l in log], 'derive': derive}
        if res[0] == 'raised':
            raised += 1
            ctx.mon('raising_calls')
        if after != snap0:
            where = 'stages' if after[0] != snap0[0] else 'measure index / header stage / bounding boxes'
            ctx.violation('document-mutated', f'call #{i + 1} {desc} changed the document ({where}); history so far: '
                          f'{[l[0][:40] for l in log]}', case)
            snap0 = after
        if consts != const0:
            ch = [k for k in consts if consts[k] != const0[k]]
            ctx.violation('shared-default-mutated', f'call #{i + 1} {desc} changed module-level {ch}', case)
            const0 = consts
        if holder is not None:
            kw, orig = holder
            for k, v in orig.items():
                cur = kw[k]
                if isinstance(cur, kp_.ExportOptions):
                    cur = {f: kpx._freeze(getattr(cur, f)) for f in kpx.OPT_FIELDS}
                if cur != v:
                    ctx.violation('argument-mutated', f'call #{i + 1} {desc} modified its {k} argument', case)
        # same call on a fresh import
        fresh, _, _ = kpx.loads(x)
        rng.setstate(rstate)
        res_f = call(fn, fresh)
        ctx.mon('fresh_comparisons')
        if res_f != res:
            ctx.violation('history-dependent-result', f'call #{i + 1} {desc} returns a different result after the history '
                          f'{[l[0][:40] for l in log[:-1]]} than on a freshly imported copy '
                          f'({str(res)[:80]} vs {str(res_f)[:80]})', case)
    if raised >= 1 and len({l[0].split('(')[0] for l in log}) >= 3:
        ctx.nontriv(cs)
    try:
        shutil.rmtree(scratch)
    except OSError:
        pass
    if len(ctx.samples) < 2:
        ctx.sample({'case_seed': cs, 'history': [f'{a[:90]} -> {b}' for a, b in log]})


def one_ranges(ctx: Ctx, cs):
    """Histories made only of measure-range exports (every call reads the spine-operator / signature recovery code of the exporter) on
    scores with nested splits that are re-joined before the barline: the k-th call must equal the first call on a fresh import."""
    import kernpy as kp
    from ..model import measures as MM
    over = [dict(p_split=0.35, p_consecutive_ops=0.6, measures=(3, 6), rows=(2, 4), rejoin_before_barline=True),
            dict(p_split=0.5, p_join=0.15, p_consecutive_ops=0.8, measures=(3, 5), rows=(3, 5), rejoin_before_barline=True, max_spines=2),
            dict(p_split=0.2, measures=(3, 7), p_midsig=0.0),
            # spines of several types: the same range again and again under different type / id / category selections
            dict(p_split=0.1, measures=(2, 4), min_spines=2, max_spines=4, mixed=True)][cs % 4]
    mixed = over.pop('mixed', False)
    doc, pname = make_doc(cs, 'default' if mixed else 'kern_core', **over)
    x = doc.text(0)
    ctx.ev()
    ctx.mon('range_histories')
    if 'nested_splits' in doc.tags:
        ctx.mon('range_histories_nested_splits')
    d, e, exc = kpx.loads(x)
    if exc is not None or e:
        ctx.mon('precondition_failed')
        return
    M = len(MM.measure_starts(doc))
    rng = random.Random(cs ^ 0xC141)
    snap0 = kpx.snapshot(d)
    log = []
    if M < 1:
        return
    types_ = sorted(set(doc.headers))
    for i in range(rng.randint(5, 9)):
        a = rng.randint(1, M) if not mixed else rng.choice([1, 1, M])
        kw = {'from_measure': a}
        if mixed:
            ctx.mon('range_exports_mixed_types')
            if rng.random() < 0.7:
                kw['spine_types'] = rng.choice([['**kern'], types_, rng.sample(types_, rng.randint(1, len(types_))), ['**mens'], types_[:1]])
            if rng.random() < 0.3:
                kw['exclude'] = [kp.TokenCategory[rng.choice(['DECORATION', 'SIGNATURES', 'BARLINES', 'COMMENTS'])]]
        if rng.random() < 0.5:
            kw['to_measure'] = rng.randint(a, M)
        if rng.random() < 0.4:
            kw['encoding'] = rng.choice(kpx.ENCODINGS)
        if rng.random() < 0.15:
            kw['spine_ids'] = [rng.randrange(len(doc.headers))]
        desc = f'dumps({ {k: str(v) for k, v in kw.items()} })'
        ctx.ev()
        ctx.mon('calls')
        res = call(lambda dd: kp.dumps(dd, **kw), d)
        log.append(desc)
        case = {'case_seed': cs, 'text': x, 'history': list(log), 'phase': 'ranges'}
        ctx.mon('snapshots')
        if kpx.snapshot(d) != snap0:
            ctx.violation('document-mutated', f'call #{i + 1} {desc} changed the document; history {log}', case)
            snap0 = kpx.snapshot(d)
        fresh, _, _ = kpx.loads(x)
        res_f = call(lambda dd: kp.dumps(dd, **kw), fresh)
        ctx.mon('fresh_comparisons')
        if res_f != res:
            ctx.violation('history-dependent-result', f'call #{i + 1} {desc} returns a different result after the history {log[:-1]} '
                          f'than on a freshly imported copy ({str(res)[:80]} vs {str(res_f)[:80]})', case)
    if 'splits' in doc.tags:
        ctx.nontriv('ranges', cs)


def run(ctx: Ctx):
    ctx.rule = ('per generated document a history of 6..12 read-only operations (dumps with arbitrary - also invalid - options, token / unique / '
                'encodings / frequency queries with filters, metacomments, spine_types, is_monophonic, iteration, measures_count, header and '
                'spine-id queries, graph export to stdout and to a file, an ExportOptions object reused twice), including calls that raise. '
                'Monitor: deep structural snapshot of the document (every node, link, token and sub-token field, measure index, bounding boxes) and '
                'fingerprints of 11 module-level constants before and after EVERY call, caller-owned option objects compared after the call; '
                'every call\'s result is compared with the same call on a fresh import. Non-trivial = history with >= 1 raising call and >= 3 '
                'distinct operations; distinct by history.  Second phase: histories of 5..9 measure-range exports (random valid ranges, encodings, one '
                'selected spine) of scores with nested splits re-joined before the barline, each compared with the same call on a fresh import.')
    ctx.assumptions = ['graph output is compared modulo renaming of node identifiers (memory addresses / global counter)']
    n = 130 if ctx.tier == 'quick' else 1000
    for cs in cases(ctx, 'c14', n):
        one(ctx, cs)
    for k_, cs in enumerate(cases(ctx, 'c14-derived', n // 5)):
        one(ctx, cs, derive=['transposed', 'clone', 'transposed'][k_ % 3])
    for cs in cases(ctx, 'c14-ranges', n // 2):
        one_ranges(ctx, cs)
    if ctx.shard is None and ctx.monitor_events.get('range_histories_nested_splits', 0) < 5:
        ctx.inconc('fewer than 5 measure-range histories on a score with nested splits')
    ctx.floors = {'calls': ('calls', 800), 'snapshots': ('snapshots', 800), 'raising': ('raising_calls', 30)}


def replay(ctx, w):
    case = w.get('case', w)
    if case.get('phase') == 'ranges':
        one_ranges(ctx, case['case_seed'])
    else:
        one(ctx, case['case_seed'], derive=case.get('derive'))
    print(case.get('text', ''))
