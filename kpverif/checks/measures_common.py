"""Shared workload and analysis for C07 / C08 / C19: **kern scores, their measure partition, excerpts."""
from __future__ import annotations

from ..gen.workload import make_doc
from ..model import grid as GM
from ..model import measures as MM
from ..model import humdrum as H
from .. import kpx

PROFILES = [
    ('kern_core', {}),
    ('kern_core', {'final_barline': 'never'}),
    ('kern_core', {'opening_barline': 'never'}),
    ('kern_core', {'measures': (3, 12), 'rows': (1, 2), 'p_split': 0.05}),
    ('kern_core', {'final_barline': 'always', 'p_pickup': 0.6}),
    ('kern_core', {'max_spines': 1, 'measures': (2, 9)}),
    ('kern_core', {'p_tandem': 0.3, 'empty_measures': 0.25}),
    ('mixed_core', {}),
    # boundary shapes: more than 100 measures (three-digit measure numbers), many spines
    ('kern_core', {'measures': (101, 112), 'rows': (1, 1), 'max_spines': 2, 'p_split': 0.01, 'p_gcomment': 0.0, 'p_fcomment': 0.01,
                   'p_tandem': 0.01, 'bar_numbers': 1.0, 'empty_measures': 0.2, 'p_null_run': 0.0, 'p_blank': 0.0}),
    ('kern_core', {'min_spines': 6, 'max_spines': 11, 'measures': (2, 4), 'rows': (1, 2), 'p_split': 0.03, 'max_width': 14}),
    # nested splits (three and more sub-spines of one spine) re-joined before the barline, in scores of several spines
    ('kern_core', {'min_spines': 2, 'max_spines': 3, 'p_split': 0.45, 'p_consecutive_ops': 0.7, 'measures': (3, 5), 'rows': (2, 4)}),
    # many field comments with hostile text (blanks, quotes, non-ASCII, form feed / U+2028 inside a comment)
    ('kern_core', {'p_fcomment': 0.45, 'hostile_text': 1.0, 'boundary_text': 0.4, 'measures': (3, 6), 'max_spines': 2}),
    # page bounding boxes (*xywh) before the first notes of a score without opening barline, and inside measures
    ('kern_core', {'p_bbox': 0.6, 'opening_barline': 'never', 'max_spines': 2, 'measures': (2, 5)}),
    # invisible barlines (=1-, =-): they delimit measures like drawn ones, and the export replaces them by nulls
    ('kern_core', {'p_hidden_bar': 0.45, 'measures': (2, 7), 'p_split': 0.3, 'rows': (1, 3)}),
    ('kern_core', {'p_hidden_bar': 0.85, 'min_spines': 2, 'measures': (3, 5), 'p_split': 0.4, 'rows': (1, 2)}),
    # a whole spine ends (*-) in the middle of the score - the first column as often as any other - and the others go on
    ('kern_core', {'p_spine_end': 0.2, 'min_spines': 2, 'max_spines': 4, 'measures': (3, 6), 'rows': (2, 4), 'p_split': 0.1}),
    # empty measures between barlines that read the same (no numbers, or one number on all of them): neighbouring rows that are equal
    ('kern_core', {'empty_measures': 0.45, 'bar_numbers': 0.0, 'p_bar_type': 0.1, 'bar_variants': False, 'measures': (4, 8), 'rows': (1, 2),
                   'max_spines': 2, 'p_split': 0.05}),
    # the same in scores with lyrics / dynamics / harmony beside the **kern spines (only the **kern spines are exported)
    ('mixed_core', {'p_spine_end': 0.25, 'min_spines': 3, 'measures': (3, 6), 'rows': (2, 3), 'p_split': 0.05}),
]
BOUNDARY_FROM = 8   # index of the first boundary profile in PROFILES
# thorough tier only: more than 256 measures, more than 1000 lines
PROFILES_THOROUGH = [
    ('kern_core', {'measures': (257, 266), 'rows': (1, 1), 'max_spines': 1, 'p_split': 0.0, 'p_gcomment': 0.0, 'p_fcomment': 0.0,
                   'p_tandem': 0.0, 'bar_numbers': 1.0, 'empty_measures': 0.3, 'p_null_run': 0.0, 'p_blank': 0.0, 'p_bbox': 0.0}),
    ('kern_core', {'measures': (12, 16), 'rows': (70, 90), 'max_spines': 1, 'p_split': 0.0, 'p_gcomment': 0.0, 'p_fcomment': 0.0,
                   'p_tandem': 0.0, 'p_null_run': 0.0, 'p_blank': 0.0, 'p_chord': 0.0}),
]


def profiles(tier):
    return PROFILES + (PROFILES_THOROUGH if tier == 'thorough' else [])


def sample_pairs(M, rng, limit=70):
    """All pairs a<=b for small M; for large M the boundaries and a random sample."""
    pairs = [(a, b) for a in range(1, M + 1) for b in range(a, M + 1)]
    if len(pairs) <= limit:
        return pairs
    must = {(1, 1), (1, M), (M, M), (M - 1, M - 1), (M - 1, M), (1, M - 1), (2, 2), (9, 10), (10, 10), (9, 9), (10, 11), (99, 100),
            (100, 100), (100, 101), (99, 99), (1, 100), (100, M)}
    must = {(a, b) for a, b in must if 1 <= a <= b <= M}
    rest = [p_ for p_ in pairs if p_ not in must]
    return sorted(must) + rng.sample(rest, limit - len(must))
EXPLORED = [
    ('kern_only', {'p_midsig': 0.25}),                                  # mid-score signature changes
    ('kern_only', {'uniform_signatures': False, 'min_spines': 2}),      # kern spines with different signature kinds
    ('kern_only', {'p_split': 0.3, 'p_join': 0.2}),                     # splits spanning barlines
    ('mixed', {'nonkern_signatures': 0.3}),                             # signatures in non-kern spines
]


def build(cs, pname, over):
    if over.get('unterminated'):
        # a score whose text simply ends (no '*-' row, nothing after the last record of music): kernpy reads it, and its measures are
        # its measures
        over = {k_: v_ for k_, v_ in over.items() if k_ != 'unterminated'}
        doc, pn = build(cs, pname, dict(over, p_post_gcomment=0.0, p_early_term=0.0))
        while doc.lines and (doc.lines[-1].kind in ('g', 'b') or
                             (doc.lines[-1].kind == 'op' and all(c.text == '*-' for c in doc.lines[-1].cells))):
            doc.lines.pop()
        doc._infos = None
        doc.tags.add('unterminated')
        doc.infos()
        return doc, pn
    if pname == 'mixed_core':
        return make_doc(cs, 'kern_core', **dict(dict(types=('**kern', '**kern', '**text', '**dynam', '**harm'), min_spines=2,
                                                     max_spines=4, split_kern_only=True), **over))
    if pname == 'mixed':
        return make_doc(cs, 'default', types=('**kern', '**kern', '**text', '**dynam', '**harm'), min_spines=2, **over)
    return make_doc(cs, pname, **over)


class Score:
    """A document imported by kernpy + the model's view of its full export."""

    def __init__(self, doc, d, kw):
        self.doc, self.d, self.kw = doc, d, kw
        self.ok = False
        self.full, err = kpx.dumps(d, **kw)
        if err is not None:
            self.err = err
            return
        rows = GM.expected_rows(doc)
        if kw.get('spine_types'):
            keep = {i for i, h in enumerate(doc.headers) if h in kw['spine_types']}
            rows = [[c for c in r if c.spine in keep] for r in rows]
            rows = [r for r in rows if r]
        rows = GM.suppress(rows)
        g = kpx.grid(self.full)
        if len(g) != len(rows) or any(len(a) != len(b) for a, b in zip(g, rows)):
            self.err = 'alignment'
            return
        self.lines = H.split_lines(self.full)
        mol = MM.measure_of_line(doc)
        self.starts = MM.measure_starts(doc)
        self.M = len(self.starts)
        self.kind = [doc.lines[r[0].line].kind for r in rows]
        self.src_line = [r[0].line for r in rows]
        self.measure = [mol[r[0].line] for r in rows]
        self.ok = True

    def data_lines(self, a, b):
        return [ln for ln, k, m in zip(self.lines, self.kind, self.measure) if k == 'data' and a <= m <= b]

    def data_line_indices(self, a, b):
        """indices (into self.lines) of the data lines of measures a..b"""
        return [i for i, (k, m) in enumerate(zip(self.kind, self.measure)) if k == 'data' and a <= m <= b]

    def bar_data_slice(self, a, b):
        """bar/data lines from the row that starts measure a through the row that starts measure b+1 (if any)."""
        lo = self.starts[a - 1] if a >= 1 else -1
        hi = self.starts[b] if b < self.M else 10 ** 9
        return [ln for ln, k, s in zip(self.lines, self.kind, self.src_line) if k in ('bar', 'data') and lo <= s <= hi]


def syntactic_kind(line):
    return H.line_kind(line.split('\t'))


def derive_document(ctx, d, doc, x, cs, derive):
    """A document that was not imported but derived through the API: a clone, the result of a transposition (same rows, other pitch
    letters), the result of concat over two or three fragments of the text.  -> document or None (derivation refused: C15 / C19 decide)."""
    import random
    import kernpy as kp
    drng = random.Random(cs ^ 0xDE51)
    try:
        if derive == 'clone':
            out = d.clone()
        elif derive == 'transposed':
            kpx.forget_bystander(d)
            out = d.to_transposed(drng.choice(['P5', 'M2', 'm3', 'octave']), drng.choice(['up', 'down']))
        elif derive == 'concat':
            lines_ = x.split('\n')
            bars_ = [i for i, ln in enumerate(doc.lines) if ln.kind == 'bar']
            if not bars_:
                return None
            cuts_ = sorted(drng.sample(bars_, min(len(bars_), drng.choice([1, 1, 2]))))
            b_ = [0] + cuts_ + [len(lines_)]
            out, _idx = kp.concat(['\n'.join(lines_[b_[i]:b_[i + 1]]) for i in range(len(b_) - 1)])
        else:
            return d
    except Exception as ex:  # noqa
        ctx.mon(f'derivation_failed:{derive}:{type(ex).__name__}')
        return None
    ctx.mon(f'derived_documents:{derive}')
    return out
