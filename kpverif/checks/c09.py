"""C09 - transposition is exact interval arithmetic: full grid of the public transpose() vs model/intervals."""
from __future__ import annotations

from ..common import Ctx
from ..model import intervals as I

PID = 'C09'
SHARDS = {'quick': 1, 'thorough': 1}


def structural(ctx, kp):
    ctx.ev()
    names = list(kp.AVAILABLE_INTERVALS)
    if sorted(names) != sorted(I.INTERVALS) or len(names) != 40:
        ctx.violation('interval-names', f'AVAILABLE_INTERVALS differs from the 40 named intervals: '
                      f'missing={sorted(set(I.INTERVALS) - set(names))} extra={sorted(set(names) - set(I.INTERVALS))}', {})
    ctx.ev()
    if len(kp.IntervalsByName) != 40 or len(kp.Intervals) != 40 or \
            {v: k for k, v in kp.Intervals.items()} != dict(kp.IntervalsByName):
        ctx.violation('interval-table', 'Intervals / IntervalsByName are not a 40-entry bijection', {})
    from kernpy.core import pitch_models as pm
    ctx.ev()
    if len(pm.Chromas) != 39 or len(set(pm.Chromas.values())) != 39 or \
            {v: k for k, v in pm.Chromas.items()} != dict(pm.ChromasByValue):
        ctx.violation('chroma-table', 'Chromas / ChromasByValue are not a 39-entry bijection', {})


_N = [0]


def dir_arg(kp, up):
    """The direction argument in rotating forms: source literal, enum value, and strings built at run time (as they arrive
    from files, JSON or the command line) - equal strings must behave equally."""
    _N[0] += 1
    k = _N[0] % 4
    word = 'up' if up else 'down'
    if k == 0:
        return word
    if k == 1:
        return (kp.Direction.UP if up else kp.Direction.DOWN).value
    if k == 2:
        return ''.join(list(word))             # a fresh str object
    return (word.upper() + ' ').strip().lower()  # another fresh str object


_F = [0]


def call_transpose(ctx, kp, src, interval, direction):
    """kp.transpose in the call forms its documented signature allows - transpose(input_encoding, interval, input_format='kern',
    output_format='kern', direction='up'): keywords, all positional, mixed, and the two-step path through the agnostic pitch
    (transpose_encoding_to_agnostic / transpose_agnostic_to_encoding with positional format and direction)."""
    _F[0] += 1
    k = _F[0] % 5
    ctx.mon(f'call_form_{k}')
    fmt = kp.NotationEncoding.HUMDRUM.value
    if k == 0:
        return kp.transpose(src, interval, direction=direction)
    if k == 1:
        return kp.transpose(src, interval, fmt, fmt, direction)
    if k == 2:
        return kp.transpose(src, interval, fmt, output_format=fmt, direction=direction)
    if k == 3:
        return kp.transpose(input_encoding=src, interval=interval, input_format=fmt, output_format=fmt, direction=direction)
    ap = kp.transpose_encoding_to_agnostic(src, interval, fmt, direction)
    return kp.transpose_agnostic_to_encoding(ap, kp.IntervalsByName['P1'], fmt, direction)


def one(ctx, kp, letter, alt, octave, name, up, *, record=True):
    src = I.spell(letter, alt, octave)
    direction = dir_arg(kp, up)
    ctx.mon('direction_argument_forms')
    case = {'pitch': src, 'interval': name, 'direction': direction}
    el, ea, eo = I.transpose(letter, alt, octave, name, up)
    spellable = abs(ea) <= 2
    ctx.ev()
    ctx.mon('transpose_call')
    try:
        got = call_transpose(ctx, kp, src, kp.IntervalsByName[name], direction)
    except Exception as e:
        if spellable:
            ctx.violation('raises-on-spellable', f'transpose({src}, {name}, {direction}) raised {type(e).__name__}: {e}; '
                          f'expected {I.spell(el, ea, eo)}', case)
        else:
            ctx.mon('unspellable')
            ctx.mon('unspellable_raised')
        return None
    if spellable:
        exp = I.spell(el, ea, eo)
        if got != exp:
            ctx.violation('wrong-result', f'transpose({src}, {name}, {direction}) = {got!r}, interval arithmetic gives {exp!r}',
                          case)
        else:
            ctx.mon('agree')
        if name not in ('P1', 'octave'):
            ctx.nontriv(src, name, direction)
    else:
        ctx.mon('unspellable')
    # inverse law, wherever the forward call returned
    ctx.ev()
    ctx.mon('inverse_call')
    try:
        back = call_transpose(ctx, kp, got, kp.IntervalsByName[name], dir_arg(kp, not up))
        if back != src:
            ctx.violation('inverse', f'{src} {direction} {name} -> {got} -> back {back!r} (expected {src!r})', case)
    except Exception as e:
        ctx.violation('inverse', f'{src} {direction} {name} -> {got}; transposing back raised {type(e).__name__}: {e}', case)
    return got


def _string_laws(ctx, kp, letter, alt, octave, src, d, d0):
    got = kp.transpose(src, kp.IntervalsByName['P1'], direction=d)
    if got != src:
        ctx.violation('unison', f'unison {d} of {src} = {got!r}', {'pitch': src, 'direction': d})
    ctx.ev()
    got = kp.transpose(src, kp.IntervalsByName['octave'], direction=d)
    exp = I.spell(letter, alt, octave + (1 if d == 'up' else -1))
    if got != exp:
        ctx.violation('octave', f'octave {d} of {src} = {got!r}, expected {exp!r}', {'pitch': src, 'direction': d})
    # P4 then P5 = octave (when the intermediate pitch is spellable)
    el, ea, eo = I.transpose(letter, alt, octave, 'P4', d == 'up')
    if abs(ea) <= 2:
        ctx.ev()
        mid = kp.transpose(src, kp.IntervalsByName['P4'], direction=d)
        got = kp.transpose(mid, kp.IntervalsByName['P5'], direction=d)
        if got != exp:
            ctx.violation('p4-p5', f'{src} {d} P4 -> {mid} {d} P5 -> {got!r}, expected the octave {exp!r}',
                          {'pitch': src, 'direction': d})
    return exp, ea


def laws(ctx, kp, letter, alt, octave):
    src = I.spell(letter, alt, octave)
    for d0 in ('up', 'down'):
        d = dir_arg(kp, d0 == 'up')
        ctx.ev()
        ctx.mon('law_call')
        try:
            exp, ea = _string_laws(ctx, kp, letter, alt, octave, src, d, d0)
        except Exception as ex:  # noqa  (a unison, an octave, a fourth and a fifth of a spellable pitch are spellable)
            ctx.violation('raises-on-spellable', f'unison / octave / P4+P5 of {src} ({d}) raised {type(ex).__name__}: {ex}',
                          {'pitch': src, 'direction': d})
            continue
        # the same laws on pitch OBJECTS that are used more than once: a pitch handed to a transposition is what it was afterwards,
        # and a pitch that came out of one can go into the next
        try:
            pobj = kp.HumdrumPitchImporter().import_pitch(src)
            before = (pobj.name, pobj.octave)
            ctx.ev()
            ctx.mon('pitch_object_reuse_cases')
            r_oct = kp.transpose_agnostics(pobj, kp.IntervalsByName['octave'], d)
            r_uni = kp.transpose_agnostics(pobj, kp.IntervalsByName['P1'], d)
            after = (pobj.name, pobj.octave)
            ex_ = kp.HumdrumPitchExporter()
            if after != before:
                ctx.violation('argument-pitch-changed', f'transposing the pitch object of {src} ({d}) by an octave / a unison changed the object '
                              f'itself: {before} -> {after}', {'pitch': src, 'direction': d})
            elif ex_.export_pitch(r_oct) != exp or ex_.export_pitch(r_uni) != src:
                ctx.violation('octave', f'object API: octave {d} of {src} = {ex_.export_pitch(r_oct)!r} (expected {exp!r}), unison = '
                              f'{ex_.export_pitch(r_uni)!r}', {'pitch': src, 'direction': d})
            elif abs(ea) <= 2:
                m1 = kp.transpose_agnostics(pobj, kp.IntervalsByName['P4'], d)          # third use of the same source object
                m2 = kp.transpose_agnostics(m1, kp.IntervalsByName['P5'], d)            # a result used as a source
                back = kp.transpose_agnostics(r_oct, kp.IntervalsByName['octave'], 'down' if d0 == 'up' else 'up')
                if ex_.export_pitch(m2) != exp or ex_.export_pitch(back) != src:
                    ctx.violation('p4-p5', f'object API with re-used pitch objects: {src} {d} P4 then P5 = {ex_.export_pitch(m2)!r} '
                                  f'(expected {exp!r}); octave and back = {ex_.export_pitch(back)!r} (expected {src!r})',
                                  {'pitch': src, 'direction': d})
            # a pitch object is what its fields say NOW: after the caller moved it through the public setters (octave, then name) a
            # transposition starts from the new pitch, not from anything remembered about the old one
            ctx.mon('pitch_object_reassigned_cases')
            pobj.octave = octave + 2
            r2 = kp.transpose_agnostics(pobj, kp.IntervalsByName['octave'], d)
            exp2 = I.spell(letter, alt, octave + 2 + (1 if d0 == 'up' else -1))
            u2 = kp.transpose_agnostics(pobj, kp.IntervalsByName['P1'], d)
            new_letter = I.LETTERS[(I.LETTERS.index(letter) + 3) % 7]
            pobj.name = new_letter + pobj.name[1:]
            r3 = kp.transpose_agnostics(pobj, kp.IntervalsByName['octave'], d)
            exp3 = I.spell(new_letter, alt, octave + 2 + (1 if d0 == 'up' else -1))
            got2, gotu, got3 = ex_.export_pitch(r2), ex_.export_pitch(u2), ex_.export_pitch(r3)
            if got2 != exp2 or gotu != I.spell(letter, alt, octave + 2) or got3 != exp3:
                ctx.violation('reassigned-pitch-object', f'pitch object of {src} after octave := {octave + 2}: octave {d} = {got2!r} (expected '
                              f'{exp2!r}), unison = {gotu!r}; after name := {new_letter}...: octave {d} = {got3!r} (expected {exp3!r})',
                              {'pitch': src, 'direction': d})
        except Exception as ex:  # noqa
            ctx.violation('raises-on-spellable', f'object API on {src} ({d}): {type(ex).__name__}: {ex}', {'pitch': src, 'direction': d})


def run(ctx: Ctx):
    import kernpy as kp
    octaves = range(0, 9) if ctx.tier == 'quick' else range(-2, 12)
    ctx.rule = (f'exhaustive grid through the public kernpy.transpose: 7 letters x alterations -2..+2 x octaves '
                f'{octaves.start}..{octaves.stop - 1} x 40 named intervals x 2 directions, each compared with an independent '
                f'letter/semitone model (direction passed as literal, enum value and run-time built strings in rotation); result required whenever the exact result has <= 2 accidentals, otherwise counted '
                f'as unspellable; inverse law wherever the forward call returned; unison, octave and P4+P5 laws on every pitch; octave-4 grid and tables re-checked after a phase of API misuse (unknown names, odd '
                f'spellings). '
                f'Non-trivial = spellable case with an interval other than P1/octave; distinct by (pitch, interval, direction).')
    ctx.assumptions = ['interval sizes follow standard theory (model/intervals.py)', 'Humdrum spelling c=C4, C=C3']
    structural(ctx, kp)
    n = 0
    for letter in I.LETTERS:
        for alt in (-2, -1, 0, 1, 2):
            for octave in octaves:
                laws(ctx, kp, letter, alt, octave)
                for name in I.INTERVALS:
                    for up in (True, False):
                        got = one(ctx, kp, letter, alt, octave, name, up)
                        n += 1
                        if n % 4111 == 1:
                            ctx.sample({'pitch': I.spell(letter, alt, octave), 'interval': name,
                                        'direction': 'up' if up else 'down', 'observed': got})
    ctx.exhaustive = True
    ctx.extra['grid_cases'] = n
    ctx.floors = {'grid': ('transpose_call', 25200)}
    try:
        from ..monitors.pitchshadow import run_shadow
        run_shadow(ctx, kp, owner='C09')
    except ImportError:
        pass
    # history: after misuse of the API (unknown interval names, odd spellings, wrong directions - calls that are rejected or
    # not) the tables and the arithmetic must be what they were
    doc, _ = kp.loads('**kern\n*clefG2\n4c\n4e\n4g\n*-\n')
    for args in (('p5',), ('P8',), ('foo',), ('m2', 'sideways'), ('OCTAVE',), ('M2', 'UP'), ('', 'up'), (None,), ('M2', None)):
        ctx.mon('api_misuse_calls')
        try:
            doc.to_transposed(*args)
        except Exception:
            pass
    for bad in (('c', 999), ('c', 'M2'), ('h', 5), ('', 5), ('c', 5, 'american')):
        ctx.mon('api_misuse_calls')
        try:
            kp.transpose(*bad)
        except Exception:
            pass
    structural(ctx, kp)
    ctx.ev()
    for name, (steps, semis) in I.INTERVALS.items():
        el, ea, eo = I.transpose('C', 0, 4, name, True)
        if abs(ea) <= 2:
            got = kp.transpose('c', kp.IntervalsByName[name], direction='up')
            if got != I.spell(el, ea, eo):
                ctx.violation('tables-changed-by-history', f'after rejected / odd API calls c up {name} = {got!r}, expected {I.spell(el, ea, eo)!r} '
                              f'(the shared interval table was modified)', {'pitch': 'c', 'interval': name, 'direction': 'up', 'after_misuse': True})
    for letter in I.LETTERS:
        for alt in (-1, 0, 1):
            for name in I.INTERVALS:
                for up in (True, False):
                    one(ctx, kp, letter, alt, 4, name, up)
    ctx.mon('post_misuse_grid_cases', 7 * 3 * 40 * 2)


def replay(ctx, w):
    import kernpy as kp
    l, a, o = I.unspell(w['pitch'])
    if 'interval' in w:
        got = one(ctx, kp, l, a, o, w['interval'], w['direction'] == 'up')
        print(f"transpose({w['pitch']}, {w['interval']}, {w['direction']}) = {got!r}; "
              f"model: {I.spell(*I.transpose(l, a, o, w['interval'], w['direction'] == 'up'))}")
    else:
        laws(ctx, kp, l, a, o)
