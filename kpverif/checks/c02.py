"""C02 - import builds a spine tree that mirrors the text cell for cell (tree vs spine-path model)."""
from __future__ import annotations

import re

from ..common import Ctx, rng_for, subseed
from ..model import spinepaths as SP
from ..gen import layouts as L
from ..gen.doc import gen_doc, profile
from .. import kpx

PID = 'C02'
SHARDS = {'quick': 1, 'thorough': 16}
SHARD_TIMEOUT = {'thorough': 3000}

DURS = ['1', '2', '4', '8', '16', '32', '64', '128']
PITCHES = [l * k for k in (1, 2, 3) for l in 'abcdefg'] + [l * k for k in (1, 2, 3) for l in 'ABCDEFG']
HOSTILE = ['"q"', 'a"b', '""', '"', "it's", 'a,b', 'two words', ' lead', 'trail ', 'naïve', '日本', 'c\\d', '"open',
           'close"', 'a""b', ',', "'", '"a"b"', '"a b" c', '","', '"\\"', 'x;y', '€']


def unique_cell(kind, r, c):
    k = r * 11 + c
    if kind == '**kern':
        return DURS[k % len(DURS)] + PITCHES[(k // len(DURS) + 3 * c) % len(PITCHES)]
    return f'w{r}x{c}'


def layout_lines(ops_rows, n_spines, rng=None, dense=0):
    """dense=0: one data row after every operator row; 1: operator rows directly follow each other; 2: a global comment
    between consecutive operator rows."""
    # the odd spines are free-text spines; in some layouts their type is one kernpy does not know, spelled with capitals (a header
    # is taken as written: '**MIDI' is not '**midi', '**Kern' is not '**kern')
    odd = ['**text', '**MIDI', '**text', '**Silbe', '**IPA', '**text', '**Kern'][(len(ops_rows) + dense) % 7]
    types = ['**kern' if i % 2 == 0 else odd for i in range(n_spines)]
    lines = [('s', list(types))]
    paths = list(range(n_spines))
    r = 0

    def data():
        nonlocal r
        r += 1
        cells = []
        for c, sp in enumerate(paths):
            t = unique_cell(types[sp], r, c)
            if rng is not None and types[sp] != '**kern' and rng.random() < 0.3:
                t = rng.choice(HOSTILE)
            cells.append(t)
        lines.append(('s', cells))
    data()
    for k, row in enumerate(ops_rows):
        lines.append(('s', list(row)))
        paths = [s for s, _ in SP.next_paths(list(row), paths)]
        last = k == len(ops_rows) - 1
        if paths and (dense == 0 or last):
            data()
        elif paths and dense == 2:
            lines.append(('g', f'!!between operator rows {k}'))
    if paths:
        lines.append(('s', ['*-'] * len(paths)))
    return lines, types


def render(lines):
    out = []
    for ln in lines:
        if ln[0] == 'g':
            out.append(ln[1])
        elif ln[0] == 'b':
            out.append('')
        else:
            out.append('\t'.join(ln[1]))
    return '\n'.join(out) + '\n'


RE_BBOX = re.compile(r'^\*xywh-(\d+):(\d+),(\d+),(\d+),(\d+)$')


def compare_tree(ctx: Ctx, case, lines, types, doc, expected_enc=None):
    """Tree vs model.  expected_enc(line, col, text) -> set of acceptable encodings (default: verbatim)."""
    infos = SP.track(lines)
    T = kpx.T
    tree = doc.tree
    nonblank = [i for i, ln in enumerate(lines) if ln[0] != 'b']
    viol = lambda key, what: ctx.violation(key, what, case)
    if len(tree.stages) != 1 + len(nonblank):
        viol('stage-count', f'{len(tree.stages)} stages for {len(nonblank)} non-empty lines')
        return False
    stage_of = {li: k + 1 for k, li in enumerate(nonblank)}
    last_pre_g = None   # node of the last global comment seen so far in the chain
    header_parent = None
    ok = True
    header_line = next(i for i, inf in enumerate(infos) if inf.kind == 'header')
    for li in nonblank:
        ln, info = lines[li], infos[li]
        st = tree.stages[stage_of[li]]
        if ln[0] == 'g':
            # a global comment is one line = one stage; where its node hangs in the tree is kernpy's design choice and not part
            # of the property (C17 constrains the listing order instead), so only kind and text are compared
            if len(st) < 1 or not all(isinstance(n_.token, T.MetacommentToken) for n_ in st):
                viol('global-comment-node', f'line {li + 1}: the stage of a global comment line holds {len(st)} nodes, not all comments')
                ok = False
                continue
            if any(n_.token.encoding != ln[1].strip() for n_ in st):
                viol('cell-text', f'line {li + 1}: global comment stored as {st[0].token.encoding!r}, text {ln[1]!r}')
                ok = False
            last_pre_g = st[0]
            continue
        cells = ln[1]
        if len(st) != len(cells):
            viol('node-count', f'line {li + 1}: {len(st)} nodes for {len(cells)} cells')
            ok = False
            continue
        if info.kind == 'header':
            header_parent = last_pre_g if last_pre_g is not None else tree.root
        for col, text in enumerate(cells):
            node = st[col]
            ctx.mon('cells_compared')
            acc = expected_enc(li, col, text) if expected_enc else None
            if acc is None:
                acc = {text}
            if node.token is None or node.token.encoding not in acc:
                viol('cell-text', f'line {li + 1} col {col}: token encoding '
                     f'{getattr(node.token, "encoding", None)!r}, cell text {text!r}')
                ok = False
            m_bb = RE_BBOX.match(text)
            if m_bb and type(node.token).__name__ == 'BoundingBoxToken':
                # the fields parsed from the cell are the cell's own numbers, whatever other boxes the page has
                ctx.mon('bounding_box_tokens_compared')
                pg, bx, by, bw, bh = (int(g) for g in m_bb.groups())
                bb = node.token.bounding_box
                got_bb = (int(node.token.page_number), bb.from_x, bb.from_y, bb.to_x, bb.to_y)
                if got_bb != (pg, bx, by, bx + bw, by + bh):
                    viol('cell-derived-fields', f'line {li + 1} col {col}: bounding-box token of {text!r} holds page/box {got_bb}')
                    ok = False
            if info.kind == 'header':
                if node.header_node is not node or getattr(node.token, 'spine_id', None) != col:
                    viol('header-identity', f'header col {col}: header_node/spine_id wrong '
                         f'(spine_id={getattr(node.token, "spine_id", None)})')
                    ok = False
                continue
            ab = info.above[col]
            exp_parent = tree.stages[stage_of[ab[0]]][ab[1]]
            if node.parent is not exp_parent:
                pp = kpx.positions(doc).get(id(node.parent))
                viol('parent-link', f'line {li + 1} col {col} ({text!r}): parent is node {pp}, model says '
                     f'stage {stage_of[ab[0]]} col {ab[1]}')
                ok = False
            sp = info.spine[col]
            exp_header = tree.stages[stage_of[header_line]][sp]
            if node.header_node is not exp_header:
                hn = node.header_node
                viol('header-identity', f'line {li + 1} col {col} ({text!r}): header node is '
                     f'{getattr(getattr(hn, "token", None), "encoding", None)}#{getattr(getattr(hn, "token", None), "spine_id", None)}, '
                     f'model says spine {sp} ({types[sp]})')
                ok = False
    # derived queries
    ids = doc.get_spine_ids()
    if ids != list(range(len(types))):
        viol('spine-ids', f'get_spine_ids() = {ids}, expected {list(range(len(types)))}')
        ok = False
    import kernpy as kp
    st_ = kp.spine_types(doc, list(dict.fromkeys(types)))     # every type of the text named: the header line as written
    if st_ != [t for t in types]:
        viol('spine-types', f'spine_types() = {st_}, expected {types}')
        ok = False
    probs = kpx.tree_shape_problems(doc)
    ctx.mon('tree_shape_checks')
    if probs:
        viol('tree-shape', '; '.join(probs[:4]))
        ok = False
    return ok


def run_case(ctx: Ctx, case, lines, types, expected_enc=None, nontrivial=False):
    from ..monitors import treecontract
    text = render(lines)
    ctx.ev()
    doc, errs, exc = kpx.loads(text)
    n, probs = treecontract.drain()
    ctx.mon('add_node_contract_evaluations', n)
    case = dict(case, text=text)
    if exc is not None:
        ctx.violation('import-raises', f'import of a well-formed text raised {type(exc).__name__}: {exc}', case)
        return
    if probs:
        ctx.violation('add-node-contract', '; '.join(probs[:3]), case)
    ok = compare_tree(ctx, case, lines, types, doc, expected_enc)
    if nontrivial:
        ctx.nontriv(text)
    return ok


def surplus_case(ctx: Ctx, case, lines, rng):
    """One surplus cell appended to a random structured line (not the header): import must raise."""
    infos = SP.track(lines)
    cand = [i for i, inf in enumerate(infos) if inf.kind in ('op', 'row')]
    if not cand:
        return
    li = rng.choice(cand)
    cells = lines[li][1]
    first = cells[0]
    if infos[li].kind == 'op':
        extra = rng.choice(['*', '*^', '*-', '*v'])
    elif first.startswith('!'):
        extra = rng.choice(['!', '!x'])
    elif first.startswith('*'):
        extra = rng.choice(['*', '*clefG2'])
    elif first.startswith('='):
        extra = first
    else:
        extra = rng.choice(['.', '4c', 'x'])
    mutated = list(lines)
    mutated[li] = ('s', cells + [extra])
    text = render(mutated)
    ctx.ev()
    ctx.mon('surplus_cases')
    doc, errs, exc = kpx.loads(text)
    if exc is None:
        ctx.violation('surplus-cell-accepted', f'line {li + 1} has {len(cells) + 1} cells for {len(cells)} live spine '
                      f'paths (surplus cell {extra!r}) but the import did not raise', dict(case, text=text, line=li + 1))
    else:
        ctx.mon(f'surplus_raised:{type(exc).__name__}')


def doc_expected_enc(doc):
    def f(li, col, text):
        c = doc.lines[li].cells[col]
        if c.kind == 'bar':
            o = c.obj
            base = o['eq'] + o['type'] + o['fermata']
            if o['type'] == ':!:':
                return {base, o['eq'] + ':|!|:' + o['fermata']}
            return {base}
        return None
    return f


def run(ctx: Ctx):
    from ..monitors import treecontract
    treecontract.install()
    shard_i, shard_n = ctx.shard if ctx.shard else (0, 1)
    ctx.rule = ('(a) every spine-operator layout of the spine-path model up to the stated depth/width, in three renderings (a data row after '
                'every operator row / operator rows directly consecutive / a global comment between them), unique cell texts; (b) random deeper documents of the C01 generator (splits, joins, '
                'early terminators, comments, blank lines, hostile cell text incl. quotes/commas/spaces/non-ASCII); '
                '(c) one surplus cell appended to a random line. Oracle: stages, nodes per cell, token text, parent link, '
                'header node and spine id compared with the model; tree-shape invariant and add_node contract. '
                'Non-trivial = layout with a split or join, or a document with a hostile cell; distinct by text.')
    ctx.assumptions = ['Humdrum spine-path rules as implemented in model/spinepaths.py',
                       'where a global comment node hangs in the tree is not constrained (only its stage, kind and text)']
    if ctx.tier == 'quick':
        spaces = [(1, 3, 8), (2, 2, 8), (3, 2, 4)]
        n_random = 250
    else:
        spaces = [(1, 4, 5), (2, 3, 5), (3, 3, 4), (2, 4, 4)]
        n_random = 2000
    rng = rng_for(ctx.seed, 'c02', shard_i)
    enumerated = {}
    k = 0
    for sp in spaces:
        cnt = 0
        for rows in L.enum_layouts(*sp):
            k += 1
            if k % shard_n != shard_i:
                continue
            cnt += 1
            lines, types = layout_lines(rows, sp[0])
            nontriv = any(c in ('*^', '*v') for r in rows for c in r)
            case = {'kind': 'layout', 'ops': [list(r) for r in rows], 'spines': sp[0]}
            run_case(ctx, case, lines, types, nontrivial=nontriv)
            ctx.cls('layout')
            if len(rows) >= 2:
                for dense in (1, 2):
                    dl, dtypes = layout_lines(rows, sp[0], dense=dense)
                    run_case(ctx, dict(case, dense=dense), dl, dtypes, nontrivial=nontriv)
                    ctx.cls('layout_consecutive_operator_rows' if dense == 1 else 'layout_comment_between_operator_rows')
            if cnt % 7 == 0:
                hl, htypes = layout_lines(rows, sp[0], rng=rng)
                run_case(ctx, dict(case, hostile=True), hl, htypes, nontrivial=True)
                ctx.cls('layout_hostile_text')
            if cnt % 5 == 0:
                surplus_case(ctx, case, lines, rng)
            if cnt in (3, 40):
                ctx.sample({'layout_ops': [list(r) for r in rows], 'text': render(lines)})
        enumerated[str(sp)] = cnt
    ctx.extra['layouts_enumerated (spines, depth, max width) -> count in this run'] = enumerated
    ctx.exhaustive = True
    ctx.extra['exhaustive_scope'] = f'spine-operator layouts {spaces}; random documents are sampled'
    for i in range(n_random):
        cs = subseed(ctx.seed, 'c02doc', shard_i, i)
        one_doc(ctx, cs, i)
    ctx.floors = {'cells': ('cells_compared', 2000), 'add_node contract': ('add_node_contract_evaluations', 2000),
                  'surplus': ('surplus_cases', 20)}
    treecontract.uninstall()
    if shard_i == 0:
        # environment axis (import from a string and from a UTF-8 file): other hash seeds, warnings as errors, ASCII default encoding,
        # -O, another current directory - the tree of a text is the same everywhere
        from .. import envchild
        import random as _r
        texts = [gen_doc(_r.Random(subseed(ctx.seed, 'c02env', i)), profile(['texty', 'splitty', 'default'][i % 3], hostile_text=0.8,
                                                                          measures=(1, 3))).text() for i in range(5)]
        envchild.run_variants(ctx, texts)


def document_fields(ctx, case, adoc, text):
    """What the Document keeps beside the tree is a function of THIS text only: the stage of the header line, the stages at which
    measures start, and per page the union of its *xywh boxes with the number of measures begun before the first of them.
    (Documents imported earlier in the process have their own.)"""
    from ..model import measures as MM
    d, e, exc = kpx.loads(text)
    if exc is not None:
        return
    ctx.ev()
    ctx.mon('document_field_checks')
    nonblank = [i for i, ln in enumerate(adoc.lines) if ln.kind != 'b']
    stage_of = {li: k + 1 for k, li in enumerate(nonblank)}
    starts = MM.measure_starts(adoc)
    want_starts = [stage_of[li] for li in starts]
    if list(d.measure_start_tree_stages) != want_starts:
        ctx.violation('document-fields', f'measure_start_tree_stages = {list(d.measure_start_tree_stages)[:8]}, the text\'s measures start at '
                      f'stages {want_starts[:8]}', dict(case, text=text))
    hl = next(li for li, ln in enumerate(adoc.lines) if ln.kind == 'header')
    if d.header_stage != stage_of[hl]:
        ctx.violation('document-fields', f'header_stage = {d.header_stage}, the header line is stage {stage_of[hl]}', dict(case, text=text))
    pages = {}
    for li, ln in enumerate(adoc.lines):
        if ln.kind in ('g', 'b'):
            continue
        for c in ln.cells:
            m = RE_BBOX.match(c.text)
            if m:
                pg, x_, y_, w_, h_ = (int(g) for g in m.groups())
                before = sum(1 for s_ in starts if s_ < li)
                cur = pages.get(str(pg))
                if cur is None:
                    pages[str(pg)] = [x_, y_, x_ + w_, y_ + h_, before]
                else:
                    cur[0], cur[1], cur[2], cur[3] = min(cur[0], x_), min(cur[1], y_), max(cur[2], x_ + w_), max(cur[3], y_ + h_)
    got = {str(k): [v.bounding_box.from_x, v.bounding_box.from_y, v.bounding_box.to_x, v.bounding_box.to_y, v.from_measure]
           for k, v in d.page_bounding_boxes.items()}
    if pages:
        ctx.mon('documents_with_page_boxes')
    if got != pages:
        ctx.violation('document-fields', f'page_bounding_boxes = {got}, the boxes written in this text give {pages} '
                      f'(page -> [x1, y1, x2, y2, measures begun before the first box])', dict(case, text=text))


def one_doc(ctx, cs, i=0):
    import random
    rng = random.Random(cs)
    pname = ['splitty', 'default', 'texty'][i % 3]
    doc = gen_doc(rng, profile(pname, hostile_text=0.5))
    lines = doc.model_lines()
    case = {'kind': 'doc', 'case_seed': cs, 'i': i, 'profile': pname}
    run_case(ctx, case, lines, doc.headers, expected_enc=doc_expected_enc(doc),
             nontrivial=bool(doc.tags & {'splits', 'joins', 'hostile_text'}))
    ctx.cls(*sorted(doc.tags))
    document_fields(ctx, case, doc, render(lines))
    if i % 4 == 1:
        # the same records with other line ends (CRLF, lone CR, a mix, blank lines after the last record) build the same tree
        base_txt = render(lines)
        d_lf, _, x_lf = kpx.loads(base_txt)
        if x_lf is None:
            s_lf = kpx.snapshot(d_lf)
            recs = base_txt.split('\n')
            for nm, txt in (('CRLF', base_txt.replace('\n', '\r\n')), ('CR', base_txt.replace('\n', '\r')),
                            ('mixed', ''.join(r_ + ['\n', '\r\n', '\r'][k_ % 3] for k_, r_ in enumerate(recs[:-1])) + recs[-1]),
                            ('trailing blank lines', base_txt + '\n\n\n')):
                ctx.ev()
                ctx.mon(f'line_end_variants:{nm}')
                d_v, _, x_v = kpx.loads(txt)
                if x_v is not None or kpx.snapshot(d_v) != s_lf:
                    ctx.violation('line-ends', f'the same records with {nm} line ends '
                                  f'{"raise " + type(x_v).__name__ + ": " + str(x_v)[:80] if x_v is not None else "build another tree"}',
                                  dict(case, line_ends=nm))
    if i % 2 == 0:
        # other API calls between two imports (exports by measure, filtered exports, queries): the next import must not care
        d_, _, _ = kpx.loads(render(lines))
        if d_ is not None:
            M_ = len(d_.measure_start_tree_stages)
            for kw_ in ({'from_measure': 1, 'to_measure': 1}, {'to_measure': max(1, M_ - 1)}, {'from_measure': max(1, M_)},
                        {'encoding': kpx.Enc.bEkern, 'spine_ids': [0]}):
                if M_:
                    kpx.dumps(d_, **kw_)
            ctx.mon('intervening_api_calls', 4)
    if i % 5 == 2:
        # a line whose cells are ALL made of blanks (space, two spaces, ideographic space, no-break space, form feed ...): a line like
        # any other - one stage, one node per cell, the text kept as it is (a malformed token in a **kern spine, still a node)
        cand = [k_ for k_, ln_ in enumerate(lines) if ln_[0] == 's' and not any(c_[:1] in ('*', '=', '!') for c_ in ln_[1])]
        if cand:
            k_ = rng.choice(cand)
            blanks = [' ', '  ', '\u3000', '\xa0', '\x0c', ' \u2028', '\x1f ', '\u2003']
            row = [rng.choice(blanks) for _ in lines[k_][1]]
            lines2 = lines[:k_ + 1] + [('s', row)] + lines[k_ + 1:]
            ctx.mon('all_blank_lines_inserted')
            base_enc = doc_expected_enc(doc)

            def enc2(li, col, text, k_=k_):
                if li == k_ + 1:
                    return None
                return base_enc(li if li <= k_ else li - 1, col, text)
            run_case(ctx, dict(case, kind='doc-blank-row', blank_row_after=k_, blank_row=row), lines2, doc.headers, expected_enc=enc2,
                     nontrivial=True)
    if i % 3 == 0:
        surplus_case(ctx, case, lines, rng)
    if i == 1:
        ctx.sample({'case_seed': cs, 'tags': sorted(doc.tags), 'text': doc.text()})


def replay(ctx, w):
    from ..monitors import treecontract
    treecontract.install()
    case = w.get('case', w)
    if case.get('kind') == 'doc':
        one_doc(ctx, case['case_seed'], case.get('i', 0))
    elif case.get('kind') == 'layout':
        import random
        lines, types = layout_lines([tuple(r) for r in case['ops']], case['spines'],
                                    rng=random.Random(1) if case.get('hostile') else None, dense=case.get('dense', 0))
        run_case(ctx, case, lines, types)
        surplus_case(ctx, case, lines, random.Random(2))
    print(w.get('text', case.get('text', '')))
    treecontract.uninstall()
