"""C04 - the six encodings are consistent views of one document (relations between the six real exports)."""
from __future__ import annotations

from collections import Counter

from ..common import Ctx
from ..gen.workload import make_doc, cases
from ..model import grid as GM
from ..model import context as CX
from .. import kpx

PID = 'C04'
SHARDS = {'quick': 1, 'thorough': 16}

SELECTIONS = [
    ('all', {}),
    ('no-decorations', {'exclude': ['DECORATION']}),
    ('bekern-categories', {'include': ['STRUCTURAL', 'CORE', 'SIGNATURES', 'BARLINES', 'IMAGE_ANNOTATIONS']}),
    ('no-durations', {'exclude': ['DURATION']}),
    ('no-pitches', {'exclude': ['PITCH']}),
    ('no-durations-no-rests', {'exclude': ['DURATION', 'REST']}),
    ('notes-only', {'include': ['NOTE_REST', 'CHORD', 'HEADER', 'SPINE_OPERATION', 'BARLINES', 'CLEF']}),
]

_factory_log = Counter()
_orig_create = None


def install_factory_recorder():
    """Recorder on TokenizerFactory.create: which (encoding, token class) combinations were tokenized."""
    global _orig_create
    import kernpy.core.tokenizers as TZ
    import kernpy.core.exporter as EX
    if _orig_create is not None:
        return
    _orig_create = TZ.TokenizerFactory.create.__func__

    def create(cls, type, **kw):
        tk = _orig_create(cls, type, **kw)
        orig_tokenize = tk.tokenize

        def tokenize(token, *a, **k):
            _factory_log[f'{type}:{token.__class__.__name__}'] += 1
            return orig_tokenize(token, *a, **k)
        tk.tokenize = tokenize
        return tk
    TZ.TokenizerFactory.create = classmethod(create)


def uninstall_factory_recorder():
    global _orig_create
    import kernpy.core.tokenizers as TZ
    if _orig_create is not None:
        TZ.TokenizerFactory.create = classmethod(_orig_create)
        _orig_create = None


def kw(sel):
    import kernpy as kp
    out = {}
    for k, v in sel.items():
        out[k] = {kp.TokenCategory[n] for n in v}
    return out


def basic_of(ecell_text, is_note):
    """Extended full cell -> expected basic-extended cell: signifiers removed note by note."""
    if not is_note:
        return ecell_text
    parts = []
    for p in ecell_text.split(' '):
        pd = p.partition('·')[0]
        parts.append(pd.rstrip('@'))
    return ' '.join(parts)


def one(ctx: Ctx, cs, pname=None, **over):
    doc, pname = make_doc(cs, pname, **over)
    x = doc.text(0)
    d, e, exc = kpx.loads(x)
    ctx.ev()
    ctx.mon('documents')
    if exc is not None or e:
        ctx.mon('precondition_failed')
        return
    ctx.cls(*sorted(doc.tags))
    rows = GM.expected_rows(doc)
    kind_at = {}
    for r in rows:
        for c in r:
            kind_at[(c.line, c.col)] = c.kind
    clef_ok = CX.all_notes_have_clef(doc)
    nontriv = any(c.kind == 'chord' and any(n.sigs for n in c.obj.notes[:-1]) for ln in doc.lines for c in ln.cells)
    first_views = {name: kpx.dumps(d, encoding=enc) for name, enc in kpx.ENC_BY_NAME.items()}
    relations(ctx, d, doc, rows, kind_at, clef_ok, SELECTIONS, {'case_seed': cs, 'profile': pname, 'over': over, 'text': x}, 'imported')
    # the six views are views of ONE document: taken again after all the other exports (basic ones included) they are what they were
    for name, enc in kpx.ENC_BY_NAME.items():
        ctx.ev()
        ctx.mon('views_retaken')
        again = kpx.dumps(d, encoding=enc)
        if not kpx.same_outcome(first_views[name][0], first_views[name][1], again[0], again[1]):
            a_, b_ = (first_views[name][0] or '').split('\n'), (again[0] or '').split('\n')
            j = next((i for i, (p_, q_) in enumerate(zip(a_, b_)) if p_ != q_), min(len(a_), len(b_)))
            ctx.violation('view-changed-by-other-views', f'the {name} view taken before and after the other exports of the same Document '
                          f'differs at line {j + 1}: {a_[j] if j < len(a_) else "<end>"!r} vs {b_[j] if j < len(b_) else "<end>"!r}',
                          {'case_seed': cs, 'profile': pname, 'over': over, 'text': x})
            break
    # derived documents are documents too: the result of a transposition (same grid, same cell kinds)
    if cs % 3 == 0:
        import random
        rng = random.Random(cs)
        d_fresh, _, _ = kpx.loads(x)
        try:
            t = d_fresh.to_transposed(rng.choice(['M2', 'P5', 'm3', 'P4', 'octave']), rng.choice(['up', 'down']))
        except Exception:
            t = None
        if t is not None:
            ctx.mon('derived_documents')
            relations(ctx, t, doc, rows, kind_at, clef_ok, SELECTIONS[:2] + SELECTIONS[3:5],
                      {'case_seed': cs, 'profile': pname, 'over': over, 'text': x, 'derived': 'to_transposed'}, 'transposed')
    # measure excerpts are exports too ("every option set"): header prefix and plain/extended relation on (a, b) ranges
    M = len(d.measure_start_tree_stages)
    if M >= 1:
        import random
        rng = random.Random(cs ^ 0x404)
        for _ in range(2):
            a = rng.randint(1, M)
            b = rng.randint(a, M)
            outs = {}
            for name, enc in kpx.ENC_BY_NAME.items():
                ctx.ev()
                ctx.mon('excerpt_exports')
                t_, err = kpx.dumps(d, from_measure=a, to_measure=b, encoding=enc)
                outs[name] = t_ if err is None else None
                if err is not None:
                    ctx.mon(f'excerpt_export_raised:{type(err).__name__} (C07/C08/C10 decide)')
            case = {'case_seed': cs, 'profile': pname, 'over': over, 'text': x, 'from_measure': a, 'to_measure': b}
            if outs['kern'] is None:
                continue
            hk = kpx.grid(outs['kern'])[:1]
            for name, t_ in outs.items():
                if t_ is None or not hk:
                    continue
                g = kpx.grid(t_)
                ctx.mon('excerpt_header_rows')
                exp_h = ['**' + kpx.PREFIX[name] + h[2:] for h in hk[0]]
                if not g or g[0] != exp_h:
                    ctx.violation('header-prefix', f'excerpt {a}..{b} in {name}: header line {g[0] if g else None}, expected {exp_h} '
                                  f'("**" + encoding prefix + original type)', case)
            for ext, plain in kpx.PLAIN_OF.items():
                if outs[ext] is None or outs[plain] is None:
                    continue
                ctx.mon('excerpt_plain_vs_extended_pairs')
                ge_, gp_ = kpx.grid(outs[ext]), kpx.grid(outs[plain])
                exp_rows = [[GM.strip_separators(c) for c in row] for row in ge_]
                if ge_ and all(c.startswith('**') for c in ge_[0]):
                    exp_rows[0] = ['**' + kpx.PREFIX[plain] + c[2 + len(kpx.PREFIX[ext]):] for c in ge_[0]]
                if gp_ != exp_rows:
                    ctx.violation('plain-vs-extended', f'excerpt {a}..{b}: {plain} != {ext} without separators', case)
    if nontriv:
        ctx.nontriv(x)
    if len(ctx.samples) < 2 and nontriv and len(x) < 600:
        ctx.sample({'case_seed': cs, 'text': x, 'bekern': kpx.dumps(d, encoding=kpx.Enc.bEkern)[0]})


def damaged(ctx: Ctx, cs):
    """A document with malformed **kern cells is a document too ("for every document"): a cell the importer could not read is a
    non-note cell and reads the same - the text as written - in all six encodings."""
    import random
    from .c12 import malformed
    from ..gen.doc import Cell, KERN_LIKE
    doc, pname = make_doc(cs, None)
    rng = random.Random(cs ^ 0xD04)
    doc.infos()
    cand = [(li, col) for li, ln in enumerate(doc.lines) if ln.kind == 'data' for col, c in enumerate(ln.cells)
            if doc.headers[c.spine] in KERN_LIKE]
    if not cand:
        return
    texts = []
    for (li, col) in rng.sample(cand, min(len(cand), rng.randint(1, 3))):
        t, cl = malformed(rng)
        while cl == 'garbage-suffix':
            t, cl = malformed(rng)
        sp = doc.lines[li].cells[col].spine
        doc.lines[li].cells[col] = Cell('error', t, spine=sp)
        texts.append(t)
    doc._infos = None
    x = doc.text(0)
    d, e, exc = kpx.loads(x)
    ctx.ev()
    ctx.mon('damaged_documents')
    if exc is not None or len(e) != len(texts):
        ctx.mon('damaged_precondition_failed (C12 decides)')
        return
    case = {'case_seed': cs, 'profile': pname, 'text': x, 'damaged': texts}
    views = {}
    for name, enc in kpx.ENC_BY_NAME.items():
        ctx.ev()
        t_, err = kpx.dumps(d, encoding=enc)
        if err is not None:
            ctx.mon(f'damaged_document_export_raised:{name}:{type(err).__name__}')
            if name not in ('akern', 'aekern'):
                ctx.violation('export-raises', f'[damaged] {name} export raised {type(err).__name__}: {err}', case)
            continue
        views[name] = kpx.grid(t_)
    ref = views.get('kern')
    if ref is None:
        return
    want = Counter(texts)
    ref_count = Counter(c for row in ref for c in row if c in want)
    for name, g in views.items():
        ctx.mon('damaged_views_compared')
        got = Counter(c for row in g for c in row if c in want)
        if got != ref_count or any(got[t] < want[t] for t in want):
            ctx.violation('error-cell-differs', f'[damaged] malformed cells {dict(want)} occur {dict(got)} times as a cell of the {name} '
                          f'export and {dict(ref_count)} times in the kern export (a non-note cell is identical in the six encodings)', case)
            continue
        if [len(r) for r in g] == [len(r) for r in ref]:
            for ri, (ra, rb) in enumerate(zip(ref, g)):
                for ci, (a, b) in enumerate(zip(ra, rb)):
                    if (a in want) != (b in want) or (a in want and a != b):
                        ctx.violation('error-cell-differs', f'[damaged] line {ri + 1} column {ci}: {a!r} in kern, {b!r} in {name}', case)
                        break
                else:
                    continue
                break
            ctx.mon('damaged_cells_compared_in_place', sum(ref_count.values()))


def relations(ctx, d, doc, rows, kind_at, clef_ok, selections, case0, label):
    for sname, sel in selections:
        case = dict(case0, selection=sname)
        out = {}
        failed = False
        for name, enc in kpx.ENC_BY_NAME.items():
            ctx.ev()
            ctx.mon('exports')
            t, exc = kpx.dumps(d, encoding=enc, **kw(sel))
            # the six views also through one long-lived ExportOptions object whose category set object stays the same from view to view
            kpx.shared_options_check(ctx, d, dict(kw(sel), encoding=enc), t, exc, case)
            if exc is not None:
                if name in ('akern', 'aekern') and isinstance(exc, ValueError) and not clef_ok:
                    ctx.mon('agnostic_without_clef_rejected')
                    out[name] = None
                    continue
                if name in ('akern', 'aekern') and not clef_ok:
                    # a note without a clef in force has no staff position: whatever the agnostic export does is counted, not judged
                    ctx.mon(f'agnostic_export_raised:{type(exc).__name__}')
                    out[name] = None
                    continue
                ctx.violation('export-raises', f'[{label}] {name} export [{sname}] raised {type(exc).__name__}: {exc}', case)
                failed = True
                break
            out[name] = t
        if failed:
            continue
        # plain = extended without separators
        for ext, plain in kpx.PLAIN_OF.items():
            if out[ext] is None or out[plain] is None:
                if (out[ext] is None) != (out[plain] is None):
                    ctx.violation('plain-vs-extended', f'{plain} and {ext} do not fail together [{sname}]', case)
                continue
            ctx.mon('plain_vs_extended_pairs')
            ge, gp = kpx.grid(out[ext]), kpx.grid(out[plain])
            exp_rows = []
            for row in ge:
                exp_rows.append([GM.strip_separators(c) for c in row])
            if ge and ge[0] and all(c.startswith('**') for c in ge[0]):
                exp_rows[0] = ['**' + kpx.PREFIX[plain] + c[2 + len(kpx.PREFIX[ext]):] for c in ge[0]]
            if gp != exp_rows:
                k = next((i for i in range(min(len(gp), len(exp_rows))) if gp[i] != exp_rows[i]), min(len(gp), len(exp_rows)))
                ctx.violation('plain-vs-extended', f'[{label}] {plain} != {ext} without separators [{sname}], line {k + 1}: '
                              f'{gp[k] if k < len(gp) else "<end>"} vs {exp_rows[k] if k < len(exp_rows) else "<end>"}', case)
        # headers
        types = doc.headers
        for name, t in out.items():
            if t is None or sel.get('include') and 'HEADER' not in sel['include'] and 'STRUCTURAL' not in sel['include']:
                continue
            g = kpx.grid(t)
            ctx.mon('header_rows')
            exp_h = ['**' + kpx.PREFIX[name] + h[2:] for h in types]
            if not g or g[0] != exp_h:
                ctx.violation('header-prefix', f'{name} header line {g[0] if g else None}, expected {exp_h} [{sname}]', case)
        # basic = full with signifiers removed note by note; non-note cells identical in all six
        ge = kpx.grid(out['ekern'])
        # map export rows back to source cells: rows align with suppress() decided on the observed extended export
        src_rows = rows
        aligned = align(ge, src_rows)
        if aligned is None:
            ctx.mon('alignment_skipped')
            continue
        gb = kpx.grid(out['bekern'])
        if len(gb) != len(ge) or any(len(a) != len(b) for a, b in zip(gb, ge)):
            # a line may legitimately disappear only if removing the signifiers left it all-null
            exp_b = []
            for i, (r, srow) in enumerate(zip(ge, aligned)):
                row = [('**be' + c[3:]) if s_.kind == 'header' else basic_of(c, kind_at[(s_.line, s_.col)] in GM.NOTE_KINDS)
                       for c, s_ in zip(r, srow)]
                if not GM.is_null_row(row):
                    exp_b.append(row)
            same = len(gb) == len(exp_b) and all(
                len(a_) == len(b_) and all(x_ == y_ or (y_ == '' and x_ in GM.NULLS) for x_, y_ in zip(a_, b_))
                for a_, b_ in zip(gb, exp_b))
            if not same:
                ctx.violation('basic-vs-full', f'bekern has {len(gb)} lines, ekern {len(ge)}, and the difference is not explained by '
                              f'lines left all-null [{sname}]', case)
            continue
        for r, (erow, brow, srow) in enumerate(zip(ge, gb, aligned)):
            for c, (oe, ob, s) in enumerate(zip(erow, brow, srow)):
                is_note = kind_at[(s.line, s.col)] in GM.NOTE_KINDS
                ctx.mon('basic_cells_compared')
                if s.kind == 'header':
                    continue
                exp = basic_of(oe, is_note)
                if is_note and exp == '' and ob in GM.NULLS:
                    continue   # nothing left of the note: the null token stands in for it
                if ob != exp:
                    key = 'basic-vs-full'
                    ctx.violation(key, f'[{label}] bekern cell {ob!r} != ekern cell {oe!r} with signifiers removed note by note '
                                  f'({exp!r}) [{sname}] (source {doc.lines[s.line].cells[s.col].text!r})', case)
        # non-note cells identical in the six encodings (each export aligned with the source rows on its own, compared by
        # source position, so that lines dropped in one encoding only cannot shift the comparison)
        emap = {(s_.line, s_.col): (oe, s_) for erow, srow in zip(ge, aligned) for oe, s_ in zip(erow, srow)}
        for name, t in out.items():
            if t is None or name == 'ekern':
                continue
            g = kpx.grid(t)
            al = align(g, src_rows)
            if al is None:
                ctx.mon('alignment_skipped')
                continue
            for orow, srow in zip(g, al):
                for oo, s_ in zip(orow, srow):
                    if s_.kind in GM.NOTE_KINDS or s_.kind == 'header' or (s_.line, s_.col) not in emap:
                        continue
                    ctx.mon('non_note_cells_compared')
                    oe = emap[(s_.line, s_.col)][0]
                    if oo != oe:
                        ctx.violation('non-note-cells', f'[{label}] {s_.kind} cell differs between ekern ({oe!r}) and {name} ({oo!r}) [{sname}]', case)


def cell_compatible(c, o):
    if o in ('.', '*'):
        return True
    if c.kind == 'header':
        return o.startswith('**')
    if c.kind == 'bar':
        return o.startswith('=')
    if c.kind in GM.NOTE_KINDS:
        return not o.startswith(('=', '**', '!')) and not (o.startswith('*') and len(o) > 1 and ' ' not in o)
    return o == c.text


def align(g, src_rows):
    """Match exported rows with source rows (exported rows are a subsequence of the source rows with the same width)."""
    out = []
    j = 0
    for row in g:
        while j < len(src_rows) and len(src_rows[j]) != len(row):
            j += 1
        # a source row of the same width may have been suppressed: look ahead for the best match on non-note cells
        k = j
        found = None
        while k < len(src_rows):
            s = src_rows[k]
            if len(s) == len(row) and all(cell_compatible(c, o) for c, o in zip(s, row)):
                found = k
                break
            k += 1
        if found is None:
            return None
        out.append(src_rows[found])
        j = found + 1
    return out


def run(ctx: Ctx):
    install_factory_recorder()
    ctx.rule = ('documents of the C01 generator x six encodings x 7 category selections that keep durations or pitches. Relations '
                'between the real outputs: plain = extended without separators (3 pairs), header = ** + prefix + type, bekern = ekern with '
                'the signifier part removed note by note (chord notes split on the space; which cells are notes comes from the abstract '
                'document), non-note cells identical in all six. Non-trivial = document with a chord carrying a signifier on a non-last '
                'note; distinct by source text.')
    ctx.assumptions = ['agnostic exports may raise ValueError when a note has no clef in force (decided from the abstract document)']
    n = 90 if ctx.tier == 'quick' else 700
    for k, cs in enumerate(cases(ctx, 'c04', n)):
        one(ctx, cs, p_chord=0.3)
        if k % 3 == 0:
            damaged(ctx, cs ^ 0x5EED)
    ctx.extra['tokenizer_x_token_class'] = dict(_factory_log)
    need = [f'{e}:ChordToken' for e in kpx.ENC_BY_NAME] + [f'{e}:NoteRestToken' for e in kpx.ENC_BY_NAME]
    for k in need:
        if _factory_log.get(k, 0) == 0 and ctx.shard is None:
            ctx.inconc(f'tokenizer/token combination {k} never observed')
    ctx.floors = {'pairs': ('plain_vs_extended_pairs', 300), 'basic cells': ('basic_cells_compared', 3000)}
    uninstall_factory_recorder()


def replay(ctx, w):
    case = w.get('case', w)
    if 'damaged' in case:
        damaged(ctx, case['case_seed'])
        print(case.get('text', ''))
        return
    one(ctx, case['case_seed'], case.get('profile'), **case.get('over', {}))
    print(case.get('text', ''))
