"""C11 - category algebra follows the documented tree (exhaustive grids vs model/cattree + call shadow)."""
from __future__ import annotations

import itertools

from ..common import Ctx, rng_for
from ..model import cattree as M

PID = 'C11'
SHARDS = {'quick': 1, 'thorough': 16}
SHARD_TIMEOUT = {'thorough': 3000}


def _names(s):
    return sorted(c.name for c in s)


def _forms(kp, names, k):
    """Rotate the argument form: set, list, tuple, single value (only for singletons)."""
    TC = kp.TokenCategory
    if names is None:
        return None, 'None'
    cats = [TC[n] for n in names]
    f = k % 4
    if f == 0:
        return set(cats), 'set'
    if f == 1:
        return list(cats), 'list'
    if f == 2:
        return tuple(cats), 'tuple'
    if len(cats) == 1:
        return cats[0], 'single'
    return list(reversed(cats)), 'list-reversed'


def structural(ctx: Ctx, kp):
    TC = kp.TokenCategory
    HM = kp.TokenCategoryHierarchyMapper
    # enum membership
    ctx.ev()
    enum_names = [c.name for c in TC]
    if sorted(enum_names) != sorted(M.ALL) or len(enum_names) != 37:
        ctx.violation('enum-members', f'TokenCategory members differ from the documented 37: '
                      f'extra={sorted(set(enum_names) - M.ALL)} missing={sorted(M.ALL - set(enum_names))}',
                      {'enum': enum_names})
    # tree() text parsed back into a forest
    for src, text in (('TokenCategory.tree', TC.tree()), ('Mapper.tree', HM.tree())):
        ctx.ev()
        ctx.mon('tree_parsed')
        try:
            parent, order = M.parse_tree_text(text, strip_prefix='TokenCategory.')
        except ValueError as e:
            ctx.violation('tree', f'{src}() is not a forest with each category once: {e}', {'text': text})
            continue
        if parent != M.PARENT:
            diff = {n: (parent.get(n, '<absent>'), M.PARENT.get(n, '<absent>')) for n in set(parent) | set(M.PARENT)
                    if parent.get(n, '<absent>') != M.PARENT.get(n, '<absent>')}
            ctx.violation('tree', f'{src}() differs from the documented tree (got parent, documented parent): {diff}',
                          {'text': text})
        if len(order) != 37:
            ctx.violation('tree', f'{src}() lists {len(order)} categories', {'text': text})
    # the hierarchy literal itself: walk it independently of kernpy's helpers
    seen = []

    def walk(d, par):
        for k, v in d.items():
            seen.append((k.name, par))
            if not isinstance(v, dict):
                ctx.violation('hierarchy-literal', f'value under {k} is not a dict', {})
                continue
            walk(v, k.name)
    walk(HM.hierarchy, None)
    ctx.ev()
    names = [n for n, _ in seen]
    if len(names) != len(set(names)):
        dup = sorted({n for n in names if names.count(n) > 1})
        ctx.violation('hierarchy-literal', f'categories occur more than once in the hierarchy: {dup}', {})
    if dict(seen) != M.PARENT:
        ctx.violation('hierarchy-literal', 'hierarchy literal differs from the documented tree',
                      {'seen': seen})
    # all()
    for src, fn in (('TokenCategory.all', TC.all), ('Mapper.all', HM.all)):
        ctx.ev()
        got = set(_names(fn()))
        if got != set(M.ALL):
            ctx.violation('all', f'{src}() != the 37 categories: missing={sorted(M.ALL - got)} extra={sorted(got - M.ALL)}', {})
    # unary queries
    for n in M.ORDER:
        c = TC[n]
        for src, fn, exp in (
            ('children', lambda: TC.children(c), set(M.CHILDREN[n])),
            ('Mapper.children', lambda: HM.children(parent=c), set(M.CHILDREN[n])),
            ('nodes', lambda: TC.nodes(c), set(M.DESC[n])),
            ('Mapper.nodes', lambda: HM.nodes(parent=c), set(M.DESC[n])),
            ('leaves', lambda: TC.leaves(c), M.leaves(n)),
            ('Mapper.leaves', lambda: HM.leaves(target=c), M.leaves(n)),
            # the same queries in the other call form (positional / keyword)
            ('children [keyword]', lambda: TC.children(target=c), set(M.CHILDREN[n])),
            ('Mapper.children [positional]', lambda: HM.children(c), set(M.CHILDREN[n])),
            ('nodes [keyword]', lambda: TC.nodes(target=c), set(M.DESC[n])),
            ('Mapper.nodes [positional]', lambda: HM.nodes(c), set(M.DESC[n])),
            ('leaves [keyword]', lambda: TC.leaves(target=c), M.leaves(n)),
            ('Mapper.leaves [positional]', lambda: HM.leaves(c), M.leaves(n)),
        ):
            ctx.ev()
            ctx.mon('unary_query')
            try:
                got = fn()
                gotn = set(_names(got))
            except Exception as e:
                ctx.violation(src.replace('Mapper.', ''), f'{src}({n}) raised {type(e).__name__}: {e}', {'category': n})
                continue
            if gotn != exp:
                ctx.violation(src.replace('Mapper.', ''), f'{src}({n}) = {sorted(gotn)}, documented tree gives {sorted(exp)}',
                              {'category': n})
            if M.CHILDREN[n]:
                ctx.nontriv('unary', n)
    # is_child on all ordered pairs, both entry points
    for a in M.ORDER:
        for b in M.ORDER:
            exp = M.is_child(child=a, parent=b)
            for src, fn in (('TokenCategory.is_child', lambda: TC.is_child(child=TC[a], parent=TC[b])),
                            ('Mapper.is_child', lambda: HM.is_child(parent=TC[b], child=TC[a])),
                            # the mapper's documented positional order is (parent, child)
                            ('Mapper.is_child [positional: parent, child]', lambda: HM.is_child(TC[b], TC[a]))):
                ctx.ev()
                ctx.mon('is_child_pair')
                got = fn()
                if bool(got) != exp:
                    ctx.violation('is_child', f'{src}(child={a}, parent={b}) = {got!r}, documented tree gives {exp}',
                                  {'child': a, 'parent': b})
            if exp and a != b and M.PARENT[b] is not None:
                ctx.nontriv('is_child-nested', a, b)
            elif exp and a != b:
                ctx.nontriv('is_child', a, b)


def check_pair(ctx, kp, inc, exc, k, do_match=True):
    """inc / exc: None or tuple of names."""
    TC = kp.TokenCategory
    HM = kp.TokenCategoryHierarchyMapper
    exp = M.valid(inc, exc)
    a_inc, f1 = _forms(kp, inc, k)
    a_exc, f2 = _forms(kp, exc, k // 4)
    fn = TC.valid if k % 2 == 0 else HM.valid
    ctx.ev()
    ctx.mon('valid_call')
    ctx.mon(f'form:{f1}')
    snap_inc = list(a_inc) if isinstance(a_inc, (set, list, tuple)) else a_inc
    snap_exc = list(a_exc) if isinstance(a_exc, (set, list, tuple)) else a_exc
    try:
        if k % 4 == 1:
            ctx.mon('valid_call_positional')
            res = HM.valid(a_inc, a_exc)          # the mapper documents (include, exclude) positionally
        else:
            res = fn(include=a_inc, exclude=a_exc)
        got = set(_names(res))
        # the caller's argument objects must come back untouched, and the result must not alias them
        for nm, arg, snap in (('include', a_inc, snap_inc), ('exclude', a_exc, snap_exc)):
            if isinstance(arg, (set, list, tuple)):
                ctx.mon('argument_purity_checks')
                if sorted(c.name for c in arg) != sorted(c.name for c in snap) or (isinstance(arg, (list, tuple)) and list(arg) != snap):
                    ctx.violation('argument-mutated', f'valid(include={inc}, exclude={exc}) [{f1}/{f2}] modified its {nm} argument: '
                                  f'{sorted(c.name for c in snap)} -> {sorted(c.name for c in arg)}', {'include': inc, 'exclude': exc, 'forms': [f1, f2]})
                if res is arg:
                    ctx.violation('argument-mutated', f'valid(include={inc}, exclude={exc}) [{f1}/{f2}] returns its own {nm} argument object',
                                  {'include': inc, 'exclude': exc, 'forms': [f1, f2]})
    except Exception as e:
        ctx.violation('valid', f'valid(include={inc}, exclude={exc}) [{f1}/{f2}] raised {type(e).__name__}: {e}',
                      {'include': inc, 'exclude': exc, 'forms': [f1, f2]})
        return
    if isinstance(res, set) and k % 3 == 0:
        # the result belongs to the caller: emptying it must not show in any later answer (shared module-level sets)
        ctx.mon('results_emptied_by_the_caller')
        res.clear()
    if got != exp:
        ctx.violation('valid', f'valid(include={inc}, exclude={exc}) [{f1}/{f2}]: got-expected={sorted(got - exp)} '
                      f'expected-got={sorted(exp - got)}', {'include': inc, 'exclude': exc, 'forms': [f1, f2]})
    if inc is not None and exc and (M.closure(inc) & M.closure(exc)):
        ctx.nontriv('overlap', inc, exc)
    if do_match:
        mfn = TC.match if k % 2 == 0 else HM.match
        for n in M.ORDER:
            ctx.ev()
            ctx.mon('match_call')
            e = bool(({n} | M.DESC[n]) & exp)
            try:
                g = mfn(TC[n], include=a_inc, exclude=a_exc)
            except Exception as ex:
                ctx.violation('match', f'match({n}, include={inc}, exclude={exc}) raised {type(ex).__name__}: {ex}',
                              {'target': n, 'include': inc, 'exclude': exc})
                continue
            if bool(g) != e:
                ctx.violation('match', f'match({n}, include={inc}, exclude={exc}) = {g!r}, model gives {e}',
                              {'target': n, 'include': inc, 'exclude': exc})


def constant_objects(ctx, kp):
    """The selections the library itself hands out (BEKERN_CATEGORIES, NON_CORE_CATEGORIES) passed as they are - the very objects - on
    the include side, on the exclude side and on both: same answers as for a literal set of the same categories."""
    import kernpy.core.tokens as TK
    TC = kp.TokenCategory
    HM = kp.TokenCategoryHierarchyMapper
    consts = [('BEKERN_CATEGORIES', kp.BEKERN_CATEGORIES), ('NON_CORE_CATEGORIES', TK.NON_CORE_CATEGORIES)]
    others = [None, ('DECORATION',), ('BARLINES', 'SIGNATURES'), ('CORE',), ('LYRICS', 'COMMENTS')]
    for cname, cobj in consts:
        names = tuple(sorted(c.name for c in cobj))
        for oth in others:
            o_arg = None if oth is None else {TC[n] for n in oth}
            for side in ('include', 'exclude', 'both'):
                inc_n, exc_n = (names, oth) if side == 'include' else (oth, names) if side == 'exclude' else (names, names)
                kw = {'include': cobj, 'exclude': o_arg} if side == 'include' else \
                     {'include': o_arg, 'exclude': cobj} if side == 'exclude' else {'include': cobj, 'exclude': cobj}
                exp = M.valid(inc_n, exc_n)
                for fname, fn in (('TokenCategory.valid', TC.valid), ('Mapper.valid', HM.valid)):
                    ctx.ev()
                    ctx.mon('library_constant_objects_as_arguments')
                    case = {'constant': cname, 'side': side, 'other': oth}
                    try:
                        got = set(_names(fn(**kw)))
                    except Exception as e:
                        ctx.violation('valid', f'{fname}({side}={cname} - the library\'s own object, other={oth}) raised {type(e).__name__}: {e}', case)
                        continue
                    if got != exp:
                        ctx.violation('valid', f'{fname}({side}={cname}, other={oth}): got-expected={sorted(got - exp)} '
                                      f'expected-got={sorted(exp - got)}', case)
                    if tuple(sorted(c.name for c in cobj)) != names:
                        ctx.violation('argument-mutated', f'{fname} modified the library constant {cname}', case)
                for n in ('NOTE', 'CORE', 'LYRICS', 'HEADER', 'DECORATION'):
                    ctx.ev()
                    try:
                        g = TC.match(TC[n], **kw)
                        e_ = bool(({n} | M.DESC[n]) & exp)
                        if bool(g) != e_:
                            ctx.violation('match', f'match({n}, {side}={cname}, other={oth}) = {g!r}, model gives {e_}', dict(case, target=n))
                    except Exception as e:
                        ctx.violation('match', f'match({n}, {side}={cname}, other={oth}) raised {type(e).__name__}: {e}', dict(case, target=n))


def structured_sets():
    """Tree-aware include/exclude sets: an inner category selected while (all / all but one of) its children, leaves or
    descendants are excluded, with the include at the category, at its parent, or absent."""
    out = []
    inner = [n for n in M.ORDER if M.CHILDREN[n]]
    for x in inner:
        desc = sorted(M.DESC[x], key=M.ORDER.index)
        groups = [tuple(M.CHILDREN[x]), tuple(sorted(M.leaves(x), key=M.ORDER.index)), tuple(desc)]
        for d in desc:
            groups.append(tuple(y for y in desc if y != d))
            groups.append(tuple(y for y in sorted(M.leaves(x), key=M.ORDER.index) if y != d))
        incs = [(x,), None]
        if M.PARENT[x]:
            incs.append((M.PARENT[x],))
            incs.append((x, M.PARENT[x]))
        for g in groups:
            for inc in incs:
                out.append((inc, g))
                out.append((g, (x,)))          # the other way round: children included, the inner node excluded
    # large selections: all roots, all leaves, all inner categories, everything but one, everything but one subtree
    roots = tuple(M.ROOTS)
    leaves_all = tuple(n for n in M.ORDER if not M.CHILDREN[n])
    for big in (roots, leaves_all, tuple(inner), tuple(M.ORDER)):
        out.append((big, None))
        out.append((big, ()))
        for x in inner:
            out.append((big, (x,)))
    for x in M.ORDER:
        out.append((tuple(n for n in M.ORDER if n != x), None))
        out.append((tuple(n for n in roots if n != x) + ((M.CHILDREN[x][0],) if M.CHILDREN[x] else ()), None))
    seen = set()
    uniq = []
    for p_ in out:
        if p_ not in seen:
            seen.add(p_)
            uniq.append(p_)
    return uniq


def arg_space(maxsize):
    out = [None, ()]
    for n in M.ORDER:
        out.append((n,))
    if maxsize >= 2:
        for a, b in itertools.combinations(M.ORDER, 2):
            out.append((a, b))
    return out


def invalid_args(ctx, kp):
    TC = kp.TokenCategory
    for bad in (['PITCH'], {1}, ('x', TC.PITCH)):
        for kw in ('include', 'exclude'):
            ctx.ev()
            ctx.mon('invalid_arg')
            try:
                TC.valid(**{kw: bad})
                ctx.violation('invalid-arg', f'valid({kw}={bad!r}) did not raise ValueError', {'arg': repr(bad)})
            except ValueError:
                pass
            except Exception as e:
                ctx.violation('invalid-arg', f'valid({kw}={bad!r}) raised {type(e).__name__} instead of ValueError',
                              {'arg': repr(bad)})


def run(ctx: Ctx):
    import kernpy as kp
    ctx.rule = ('exhaustive grids over the 37 documented categories: tree()/hierarchy literal parsed back to a forest; '
                'children/nodes/leaves/all for all 37; is_child for all 37x37 ordered pairs (both entry points); '
                'valid + 37 x match for include/exclude argument pairs (quick: sizes <=1 incl. None and empty, plus '
                'sampled size-2 and larger sets, and tree-aware structured sets (an inner category selected while all / all but one of its '
                'children, leaves or descendants are excluded); thorough: all 705x705 pairs of size <=2 sharded, valid on every pair, '
                'match on every pair); argument forms set/list/tuple/single rotated. Non-trivial = nested-parent '
                'is_child pair, category with children, or include/exclude pair whose closures overlap; distinct by value.')
    ctx.assumptions = ['the documented tree is the Tree: block of README.md, copied into model/cattree.py',
                       'is_child(a, a) is True as its docstring states']
    ctx.floors = {'is_child grid': ('is_child_pair', 3 * 37 * 37), 'valid calls': ('valid_call', 1000)}
    shard_i, shard_n = ctx.shard if ctx.shard else (0, 1)
    if shard_i == 0:
        structural(ctx, kp)
        invalid_args(ctx, kp)
        constant_objects(ctx, kp)
    if ctx.tier == 'quick':
        space = arg_space(1)
        k = 0
        for inc in space:
            for exc in space:
                check_pair(ctx, kp, inc, exc, k)
                k += 1
        big = arg_space(2)
        rng = rng_for(ctx.seed, 'c11-sample')
        for j in range(4000):
            check_pair(ctx, kp, rng.choice(big), rng.choice(big), rng.randrange(16), do_match=(j % 4 == 0))
        for j in range(1500):
            inc = tuple(rng.sample(M.ORDER, rng.randint(3, 12)))
            exc = tuple(rng.sample(M.ORDER, rng.randint(0, 8)))
            check_pair(ctx, kp, inc, exc, rng.randrange(16), do_match=(j % 3 == 0))
        for j, (inc, exc) in enumerate(structured_sets()):
            check_pair(ctx, kp, inc, exc, j)
            ctx.mon('structured_pairs')
        ctx.sample({'include': ['NOTE_REST'], 'exclude': ['PITCH'], 'valid': sorted(M.valid(('NOTE_REST',), ('PITCH',)))})
        ctx.sample({'is_child': {'child': 'PITCH', 'parent': 'NOTE', 'expected': True}})
        ctx.exhaustive = True
        ctx.extra['exhaustive_scope'] = ('tree/all/children/nodes/leaves for 37 categories, is_child 37x37, '
                                         'valid+match for 39x39 argument pairs of size <=1; larger sets sampled')
    else:
        big = arg_space(2)
        rng = rng_for(ctx.seed, 'c11-thorough', shard_i)
        k = shard_i
        n = 0
        for ii, inc in enumerate(big):
            if ii % shard_n != shard_i:
                continue
            for exc in big:
                check_pair(ctx, kp, inc, exc, k)
                k += 1
                n += 1
        if shard_i == 0:
            for j, (inc, exc) in enumerate(structured_sets()):
                check_pair(ctx, kp, inc, exc, j)
                ctx.mon('structured_pairs')
        for j in range(50000 // shard_n):
            inc = tuple(rng.sample(M.ORDER, rng.choice([3, 5, 8, 12, 15, 16, 17, 20, 25, 30, 36, rng.randint(3, 36)])))
            exc = tuple(rng.sample(M.ORDER, rng.choice([0, 1, 2, 5, 10, 16, 20])))
            check_pair(ctx, kp, inc, exc, rng.randrange(16), do_match=(j % 3 == 0))
        ctx.sample({'shard': shard_i, 'pairs_enumerated': n, 'first_include': big[shard_i] if shard_i < len(big) else None})
        ctx.exhaustive = True
        ctx.extra['exhaustive_scope'] = 'as quick plus valid+match for all 705x705 include/exclude pairs of size <=2'
    # shadow of the calls kernpy itself issues, over a small document workload
    try:
        from ..monitors.catshadow import run_shadow
        run_shadow(ctx, kp, n_docs=(40 if ctx.tier == 'quick' else 60), salt=shard_i)
    except ImportError:
        pass


def replay(ctx: Ctx, w):
    import kernpy as kp
    TC = kp.TokenCategory
    if 'child' in w:
        got = TC.is_child(child=TC[w['child']], parent=TC[w['parent']])
        exp = M.is_child(w['child'], w['parent'])
        ctx.ev()
        print(f'is_child(child={w["child"]}, parent={w["parent"]}) = {got}, expected {exp}')
        if bool(got) != exp:
            ctx.violation('is_child', 'replayed', w)
    elif 'include' in w:
        inc = tuple(w['include']) if w['include'] is not None else None
        exc = tuple(w['exclude']) if w['exclude'] is not None else None
        for k in range(16):
            check_pair(ctx, kp, inc, exc, k)
    else:
        structural(ctx, kp)
