"""C05 - category filtering removes exactly the unselected material (filtered export vs model filter of the unfiltered export)."""
from __future__ import annotations

import itertools
import random
from collections import Counter

from ..common import Ctx, subseed
from ..gen.workload import make_doc, cases
from ..model import grid as GM
from ..model import cattree as CT
from .. import kpx

PID = 'C05'
SHARDS = {'quick': 1, 'thorough': 16}

_rec = Counter()
_orig = {}


def install_recorder():
    """Recorder on Exporter.append_row / _retrieve_empty_token: how many cells were spine-gated, replaced by a
    placeholder, or exported."""
    import kernpy.core.exporter as EX
    if _orig:
        return
    _orig['append_row'] = EX.Exporter.append_row
    _orig['empty'] = EX.Exporter._retrieve_empty_token.__func__

    def append_row(self, *a, **k):
        # signature-transparent: only the list the cells are appended to is looked at (keyword `row` or the last list argument)
        row = k.get('row')
        if row is None:
            row = next((x_ for x_ in reversed(a) if isinstance(x_, list)), [])
        n0 = len(row)
        r = _orig['append_row'](self, *a, **k)
        if not r:
            _rec['cells_spine_gated'] += 1
        elif len(row) == n0 + 1:
            _rec['cells_appended'] += 1
        return r

    def empty(cls, *a, **k):
        _rec['placeholders'] += 1
        return _orig['empty'](cls, *a, **k)
    EX.Exporter.append_row = append_row
    EX.Exporter._retrieve_empty_token = classmethod(empty)


def uninstall_recorder():
    import kernpy.core.exporter as EX
    if _orig:
        EX.Exporter.append_row = _orig['append_row']
        EX.Exporter._retrieve_empty_token = classmethod(_orig['empty'])
        _orig.clear()


def form(kp, names, k):
    if names is None:
        return None
    cats = [kp.TokenCategory[n] for n in names]
    f = k % 4
    if f == 0:
        return set(cats)
    if f == 1:
        return list(cats)
    if f == 2:
        return tuple(cats)
    return cats[0] if len(cats) == 1 else list(reversed(cats))


def check_filter(ctx, kp, d, agrid, E, inc, exc, k, case):
    sel = CT.valid(inc, exc)
    ctx.ev()
    ctx.mon('filtered_exports')
    kw = {}
    if inc is not None:
        kw['include'] = form(kp, inc, k)
    if exc is not None:
        kw['exclude'] = form(kp, exc, k // 4)
    out, err = kpx.dumps(d, encoding=kpx.Enc.eKern, **kw)
    c2 = dict(case, include=inc, exclude=exc)
    if k % 3 == 1:
        # a third of the selections also as the final category collection of a long-lived ExportOptions object (set, list or tuple)
        # (a basic view first, then the extended one, through the same selection object)
        ob, eb = kpx.dumps(d, encoding=kpx.Enc.bEkern, **kw)
        kpx.shared_options_check(ctx, d, dict(kw, encoding=kpx.Enc.bEkern), ob, eb, c2)
        kpx.shared_options_check(ctx, d, dict(kw, encoding=kpx.Enc.eKern), out, err, c2)
    if err is not None:
        ctx.violation('filtered-export-raises', f'include={inc} exclude={exc}: {type(err).__name__}: {err}', c2)
        return
    if sel == set(CT.ALL):
        ctx.mon('identity_cases')
        if out != E:
            ctx.violation('identity', f'include={inc} exclude={exc} selects everything but the export differs from the '
                          f'unfiltered one', c2)
        return
    fg = GM.filter_grid(agrid, sel)
    msg = GM.match_filtered(fg, kpx.grid(out))
    if msg is not None:
        ctx.violation('filter-mismatch', f'include={inc} exclude={exc}: {msg}', c2)
        return
    if out != E and out.strip():
        ctx.nontriv(case['case_seed'], inc, exc)
        return True
    return False


def one(ctx: Ctx, cs, pname=None, n_pairs=300, n_big=0, all_pairs=False, derive=None, **over):
    import kernpy as kp
    doc, pname = make_doc(cs, pname, **over)
    x = doc.text(0)
    ctx.ev()
    ctx.mon('documents')
    d, e, exc = kpx.loads(x)
    if exc is not None or e:
        ctx.mon('precondition_failed')
        return
    if derive:
        # a Document obtained through the API (result of a transposition / concat / clone): the filter acts on it as on any other
        from . import measures_common as MC
        d = MC.derive_document(ctx, d, doc, x, cs, derive)
        if d is None:
            return
    E, err = kpx.dumps(d, encoding=kpx.Enc.eKern)
    if err is not None:
        ctx.mon('precondition_failed')
        return
    agrid = GM.annotate(doc, d, E)
    if agrid is None:
        ctx.mon('alignment_failed (C03 decides)')
        return
    ctx.cls(*sorted(doc.tags))
    ctx.mon('cells_annotated', sum(len(r) for r in agrid))
    case = {'case_seed': cs, 'profile': pname, 'over': over, 'text': x, 'derive': derive}
    rng = random.Random(cs ^ 0x5A5A)
    k = 0
    nontriv = 0
    # identity forms
    for inc, exc_ in ((None, None), (tuple(CT.ORDER), None), (None, ()), (tuple(CT.ORDER), ()), (tuple(CT.ROOTS), None)):
        check_filter(ctx, kp, d, agrid, E, inc, exc_, k, case)
        k += 1
    for n in CT.ORDER:
        if check_filter(ctx, kp, d, agrid, E, (n,), None, k, case):
            nontriv += 1
        k += 1
        if check_filter(ctx, kp, d, agrid, E, None, (n,), k, case):
            nontriv += 1
        k += 1
    pairs = list(itertools.product(CT.ORDER, CT.ORDER))
    if not all_pairs:
        pairs = rng.sample(pairs, n_pairs)
    for a, b in pairs:
        if check_filter(ctx, kp, d, agrid, E, (a,), (b,), k, case):
            nontriv += 1
        k += 1
    # structured sets: a category together with one of its own descendants (or its parent) on the exclude side, on the include side,
    # and on both; siblings; a whole subtree listed member by member
    nested = [(a_, b_) for a_ in CT.ORDER for b_ in CT.ORDER if a_ != b_ and b_ in CT.closure((a_,))]
    for a_, b_ in rng.sample(nested, min(len(nested), 14)):
        other = rng.choice(CT.ORDER)
        for inc, exc_ in ((None, (a_, b_)), (None, (b_, a_, other)), ((a_, b_), None), ((a_, b_), (b_,)), ((other, a_), (b_, a_)),
                          (None, tuple(sorted(CT.closure((a_,)))))):
            if check_filter(ctx, kp, d, agrid, E, inc, exc_, k, case):
                nontriv += 1
            k += 1
            ctx.mon('structured_filter_sets')
    for _ in range(n_big):
        inc = tuple(rng.sample(CT.ORDER, rng.randint(2, 10)))
        exc_ = tuple(rng.sample(CT.ORDER, rng.randint(0, 6)))
        if check_filter(ctx, kp, d, agrid, E, inc, exc_, k, case):
            nontriv += 1
        k += 1
    if nontriv:
        ctx.mon('documents_with_nontrivial_filters')
    if len(ctx.samples) < 2 and len(x) < 500:
        o, _ = kpx.dumps(d, encoding=kpx.Enc.eKern, include={kp.TokenCategory.NOTE_REST, kp.TokenCategory.BARLINES},
                         exclude={kp.TokenCategory.PITCH})
        ctx.sample({'case_seed': cs, 'text': x, 'include': ['NOTE_REST', 'BARLINES'], 'exclude': ['PITCH'], 'export': o})


def run(ctx: Ctx):
    install_recorder()
    ctx.rule = ('per document: identity forms, all 37 single includes, all 37 single excludes, ordered (include, exclude) pairs '
                '(quick: 300 sampled per document; thorough: all 1369 + 200 random larger sets), argument forms set/list/tuple/single '
                'rotated. Oracle: model filter (closure from the documented tree; note sub-parts by category; chord gated on CHORD then '
                'per note; other tokens by the category read from the tree; all-placeholder lines dropped) applied to the REAL unfiltered '
                'eKern export; a placeholder may be "." or "*". Non-trivial = (document, include, exclude) whose filter changes the export and '
                'leaves a non-null cell; distinct by (document, include, exclude).')
    ctx.assumptions = ['token categories are read from the imported tree (C05 does not impose a category table)',
                       'a chord whose notes are all emptied may or may not keep its line (the statement does not decide)']
    if ctx.tier == 'quick':
        for k_, cs in enumerate(cases(ctx, 'c05', 22)):
            # every fourth document: lyrics / dynamics / harmony beside the notes, a good share of their words spelled with the
            # characters of the null tokens ('...'): a line that holds such a word is not an empty line, whatever is filtered around it
            if k_ % 4 == 3:
                one(ctx, cs, 'texty', n_pairs=300, null_like_words=0.25)
            else:
                one(ctx, cs, n_pairs=300)
        for k_, cs in enumerate(cases(ctx, 'c05-derived', 6)):
            one(ctx, cs, n_pairs=200, derive=['transposed', 'transposed', 'concat'][k_ % 3])
    else:
        for k_, cs in enumerate(cases(ctx, 'c05', 40)):
            if k_ % 4 == 3:
                one(ctx, cs, 'texty', all_pairs=True, n_big=200, null_like_words=0.25)
            else:
                one(ctx, cs, all_pairs=True, n_big=200)
        for k_, cs in enumerate(cases(ctx, 'c05-derived', 6)):
            one(ctx, cs, n_pairs=600, n_big=100, derive=['transposed', 'transposed', 'concat'][k_ % 3])
    ctx.extra['exporter_recorder'] = dict(_rec)
    ctx.floors = {'filters': ('filtered_exports', 5000), 'identity': ('identity_cases', 40)}
    if _rec.get('placeholders', 0) == 0:
        ctx.inconc('placeholder path of the exporter never observed')
    uninstall_recorder()


def replay(ctx, w):
    import kernpy as kp
    case = w.get('case', w)
    doc, pname = make_doc(case['case_seed'], case.get('profile'), **case.get('over', {}))
    x = doc.text(0)
    d, e, exc = kpx.loads(x)
    if case.get('derive'):
        from . import measures_common as MC
        d = MC.derive_document(ctx, d, doc, x, case['case_seed'], case['derive'])
    E, _ = kpx.dumps(d, encoding=kpx.Enc.eKern)
    agrid = GM.annotate(doc, d, E)
    inc = tuple(case['include']) if case.get('include') is not None else None
    exc_ = tuple(case['exclude']) if case.get('exclude') is not None else None
    for k in range(16):
        check_filter(ctx, kp, d, agrid, E, inc, exc_, k, case)
    print(x)
