"""C19 - concatenation indexes address the fragments (concat vs joined import; index arithmetic; fragment data lines)."""
from __future__ import annotations

import itertools
import random

from ..common import Ctx
from ..gen.workload import cases
from .. import kpx
from . import measures_common as MC
from .c07 import classify_exception

PID = 'C19'
SHARDS = {'quick': 1, 'thorough': 16}


def one(ctx: Ctx, cs, pname, over, core=True, max_sets=24):
    import kernpy as kp
    doc, _ = MC.build(cs, pname, over)
    x = doc.text(0)
    ctx.ev()
    ctx.mon('documents')
    d, e, exc = kpx.loads(x)
    if exc is not None or e:
        ctx.mon('precondition_failed')
        return
    if set(doc.headers) != {'**kern'}:
        return
    sc = MC.Score(doc, d, {})
    if not sc.ok or sc.M == 0:
        ctx.mon('skipped (alignment / no measures)')
        return
    ctx.cls(*sorted(doc.tags))
    rng = random.Random(cs ^ 0xC19)
    src_lines = [ln.render(0) for ln in doc.lines]
    bars = [i for i, ln in enumerate(doc.lines) if ln.kind == 'bar']
    if not bars:
        return
    cutsets = []
    if len(bars) <= 4:
        for r in range(0, min(5, len(bars)) + 1):
            cutsets += [list(c) for c in itertools.combinations(bars, r)]
    else:
        if len(bars) > 40:
            max_sets = 3     # long scores: every concat re-imports growing prefixes, keep the number of cut sets small
        singles = bars if len(bars) <= 12 else sorted(set(bars[:1] + bars[-2:] + bars[9:10] + bars[99:100] + rng.sample(bars, 2)))
        cutsets = [[]] + [[b] for b in singles]
        for _ in range(max_sets):
            cutsets.append(sorted(rng.sample(bars, rng.randint(2, 5))))
    if len(cutsets) > max_sets + min(len(bars), 14) + 1:
        cutsets = cutsets[:1] + rng.sample(cutsets[1:], max_sets + min(len(bars), 14))
    if len(src_lines) > 500 and len(cutsets) > 4:
        # a long text: every concat imports prefixes of hundreds of lines - the empty cut, two single cuts and one multiple cut
        multi = [c for c in cutsets if len(c) >= 2]
        single = [c for c in cutsets if len(c) == 1]
        cutsets = [[]] + rng.sample(single, min(2, len(single))) + (rng.sample(multi, 1) if multi else [])
        ctx.cls('long_text (cut sets thinned)')
    # whenever two neighbouring rows are the same barline (an empty measure between unnumbered barlines), one cut goes between them:
    # the earlier fragment ends with that row and the later one begins with its twin
    twins = [b for b in bars if b - 1 in bars and src_lines[b] == src_lines[b - 1]]
    for b in twins[:2]:
        if [b] not in cutsets:
            cutsets.append([b])
            ctx.mon('cuts_between_identical_barline_rows')
    ref_snap = kpx.snapshot(d)
    full = sc.full
    for ci, cuts in enumerate(cutsets):
        bounds = [0] + cuts + [len(src_lines)]
        frag_ranges = [(bounds[i], bounds[i + 1]) for i in range(len(bounds) - 1)]
        shared_frags = ['\n'.join(src_lines[a:b]) + '\n' for a, b in frag_ranges]   # one list object for two calls (modes 2 then 1)
        modes = (0, 2, 1) if ci % 4 == 0 else (0, 1)
        if ci % 5 == 1:
            modes = modes + (3, 4)
        if ci % 5 == 2:
            modes = modes + (5,)
        for sep_mode in modes:
            ref_alternatives = None
            char_cuts = False
            if sep_mode == 5:
                # fragments whose records end the way another platform ends them: a lone CR (classic Mac) or CR LF; the importer reads
                # all three line ends, so the joined text is the same score
                le = ['\r', '\r\n'][(ci // 5) % 2]
                sep = le
                frags = [le.join(src_lines[a:b]) for a, b in frag_ranges]
                kwargs = {'separator': le}
                ctx.mon(f'fragments_with_line_end:{"CR" if le == chr(13) else "CRLF"}')
            elif sep_mode == 3:
                # a separator that carries content: a reference record between the fragments.  "The joined text" is the fragments
                # with the separator between them (kernpy also writes it in front of the first): either reading is accepted
                sep = ['\n!!!system: break\n', '\n!! next page\n', '\n\n!!!YEM: x\n\n'][ci % 3]
                frags = ['\n'.join(src_lines[a:b]) for a, b in frag_ranges]
                kwargs = {'separator': sep}
                ctx.mon('separators_with_content')
                ref_alternatives = []
                for joined in (sep.join(frags), sep + sep.join(frags)):
                    dj, ej, xj = kpx.loads(joined)
                    if xj is None:
                        ref_alternatives.append(kpx.snapshot(dj))
            elif sep_mode == 4:
                # the empty separator with fragments cut at ANY line end after the header line (not only before a barline), the
                # line end going to the earlier or to the later fragment.  (A cut inside a row is outside the domain: concat imports
                # every prefix, and half a token - '*x' of '*xywh...' - need not be importable.)
                sep = ''
                hdr_end = x.index('\n', x.index('**')) + 1
                ends = [i_ for i_ in range(hdr_end, len(x) - 1) if x[i_] == '\n']
                if not ends:
                    continue
                pos = sorted({e_ + rng.choice([0, 1]) for e_ in rng.sample(ends, min(len(ends), rng.randint(1, 3)))})
                b_ = [0] + pos + [len(x)]
                frags = [x[b_[i]:b_[i + 1]] for i in range(len(b_) - 1)]
                kwargs = {'separator': ''}
                char_cuts = True
                ctx.mon('cuts_at_arbitrary_line_ends')
            elif sep_mode == 0:
                sep = '\n'
                frags = ['\n'.join(src_lines[a:b]) for a, b in frag_ranges]
                # the newline separator in its three forms: omitted, explicit, and None (Optional[str]: None stands for the default)
                kwargs = [{}, {'separator': '\n'}, {'separator': None}][ci % 3]
                ctx.mon(f'separator_form:{["omitted", "newline", "None"][ci % 3]}')
            elif sep_mode == 2:
                # newline separator AND fragments that end with a newline: blank lines between the fragments
                sep = '\n'
                frags = shared_frags
                kwargs = {'separator': '\n'}
            else:
                sep = ''
                # the caller's own list again (when mode 2 ran before, the very object concat has already seen once)
                frags = shared_frags
                ctx.mon('fragment_list_objects_reused' if ci % 4 == 0 else 'fragment_list_objects_fresh')
                kwargs = {'separator': ''}
            ctx.ev()
            ctx.mon('concat_calls')
            case = {'case_seed': cs, 'profile': pname, 'over': over, 'core': core, 'cuts': cuts, 'separator': sep, 'text': x}
            if char_cuts:
                case['fragments'] = frags
            try:
                cd, idx = kp.concat(frags, **kwargs)
            except Exception as ex:
                first_has_measure = any(s < cuts[0] for s in sc.starts) if cuts else True
                key = 'concat-raises'
                if not first_has_measure and 'No measures found' in str(ex):
                    key = 'first-fragment-without-measure'
                ctx.violation(key, f'concat of {len(frags)} fragments (cuts before source lines {[c + 1 for c in cuts]}, separator {sep!r}) '
                              f'raised {type(ex).__name__}: {ex}', case)
                continue
            # same document as importing the joined text
            if ref_alternatives is not None:
                snap_cd = kpx.snapshot(cd)
                if ref_alternatives and not any(snap_cd == r_ for r_ in ref_alternatives):
                    ctx.violation('concat-differs-from-joined-import', f'cuts {cuts}, separator {sep!r}: the concatenated document differs '
                                  f'from the import of the fragments joined with that separator (with or without a leading one)', case)
                    continue
            elif kpx.snapshot(cd) != ref_snap:
                out, _ = kpx.dumps(cd)
                ctx.violation('concat-differs-from-joined-import', f'cuts {cuts}: the concatenated document differs from loads(joined text) '
                              f'(exports equal: {out == full})', case)
                continue
            if len(idx) != len(frags):
                ctx.violation('index-count', f'{len(idx)} index pairs for {len(frags)} fragments', case)
                continue
            if char_cuts:
                # fragments cut inside rows own no whole data lines: the document, the number of pairs and the last 'to' are judged
                if idx[-1][1] != sc.M:
                    ctx.violation('index-arithmetic', f'character cuts {pos}: indexes {idx} do not end at M={sc.M}', dict(case, char_cuts=pos))
                continue
            ok = True
            for i in range(len(idx) - 1):
                if idx[i + 1][0] != idx[i][1] + 1:
                    ok = False
            if not ok or idx[-1][1] != sc.M:
                ctx.violation('index-arithmetic', f'cuts {cuts}: indexes {idx} are not consecutive or do not end at M={sc.M}', case)
                continue
            # exporting pair i reproduces the data lines of fragment i
            for i, ((lo, hi), (fa, fb)) in enumerate(zip(idx, frag_ranges)):
                ctx.ev()
                ctx.mon('fragment_exports')
                exp = [ln for ln, k, s in zip(sc.lines, sc.kind, sc.src_line) if k == 'data' and fa <= s < fb]
                out, err = kpx.dumps(cd, from_measure=lo, to_measure=hi)
                c2 = dict(case, fragment=i, pair=[lo, hi])
                if err is not None:
                    k = classify_exception(doc, err)
                    ctx.violation(k if k != 'range-raises' else 'fragment-export-raises',
                                  f'fragment {i} pair ({lo},{hi}) of {idx}: export raised {type(err).__name__}: {err}', c2)
                    continue
                got = [ln for ln in out.split('\n') if ln and MC.syntactic_kind(ln) == 'data']
                if got != exp:
                    ctx.violation('fragment-data-lines', f'cuts {cuts}: exporting pair {i} = ({lo},{hi}) of {idx} gives {len(got)} data lines, '
                                  f'fragment {i} (source lines {fa + 1}..{fb}) has {len(exp)}: unexpected '
                                  f'{[g for g in got if g not in exp][:2]} missing {[g for g in exp if g not in got][:2]}', c2)
                elif len(frags) >= 3 and 0 < i < len(frags) - 1:
                    ctx.nontriv(cs, tuple(cuts), sep, i)
    if len(ctx.samples) < 2 and len(bars) >= 2 and len(x) < 400:
        cuts = bars[:2]
        frags = ['\n'.join(src_lines[a:b]) for a, b in zip([0] + cuts, cuts + [len(src_lines)])]
        try:
            ctx.sample({'case_seed': cs, 'fragments': frags, 'indexes': [list(p) for p in kp.concat(frags)[1]]})
        except Exception as ex:
            ctx.sample({'case_seed': cs, 'fragments': frags, 'raised': str(ex)})


def run(ctx: Ctx):
    ctx.rule = ('**kern scores of C07\'s claimed core cut before every subset of barline rows (all subsets when <= 4 barlines, otherwise the '
                'empty cut, every single cut and sampled sets of 2..5 cuts) into 1..6 fragments, separators "\\n" (fragments without final '
                'newline) and "" (fragments with final newline). Oracle: deep snapshot of the concatenated document == snapshot of '
                'loads(full text); one pair per fragment; lo[i+1]==hi[i]+1; hi[-1]==M; data lines of dumps(lo_i,hi_i) == data lines of '
                'fragment i taken from the abstract cut. Non-trivial = inner fragment of a >= 3-fragment cut whose pair reproduced its data '
                'lines; distinct by (document, cut set, separator, fragment).')
    ctx.assumptions = ['cuts are made before barline rows only (the property\'s domain)']
    n = 2 * len(MC.profiles(ctx.tier)) if ctx.tier == 'quick' else 200
    i = 0
    for cs in cases(ctx, 'c07', n):
        pname, over = MC.profiles(ctx.tier)[i % len(MC.profiles(ctx.tier))]
        i += 1
        if pname == 'mixed_core':
            continue
        one(ctx, cs, pname, over, core=True, max_sets=(14 if ctx.tier == 'quick' else 40))
    if ctx.shard is None or ctx.shard[0] == 0:
        # environment axis: concat of a few cut scores in child interpreters (other hash seeds, warnings as errors, ASCII default
        # encoding, -O, another current directory): same document, same index pairs
        from .. import envchild
        from ..common import subseed
        texts, frs = [], []
        for k_ in range(4):
            dd, _ = MC.build(subseed(ctx.seed, 'c19env', k_), 'kern_core', {'measures': (2, 4)})
            ls_ = [ln.render(0) for ln in dd.lines]
            bars_ = [i_ for i_, ln in enumerate(dd.lines) if ln.kind == 'bar']
            if not bars_:
                continue
            cut_ = bars_[len(bars_) // 2]
            texts.append('\n'.join(ls_) + '\n')
            frs.append(['\n'.join(ls_[:cut_]), '\n'.join(ls_[cut_:]) + '\n'])
        if texts:
            envchild.run_variants(ctx, texts, fragments=frs)
    ctx.floors = {'concat': ('concat_calls', 300), 'fragment exports': ('fragment_exports', 600)}


def replay(ctx, w):
    case = w.get('case', w)
    one(ctx, case['case_seed'], case['profile'], case.get('over', {}), core=case.get('core', True))
    print(case.get('text', ''))
