"""C20 - file and command-line paths equal the in-memory API (files/CLI vs API; real subprocess CLI; strace sample)."""
from __future__ import annotations

from pathlib import Path

import json
import os
import random
import shutil
import subprocess
import sys

from ..common import Ctx, SCRATCH_DIR, ROOT, REPO
from ..gen.workload import make_doc, cases
from .. import kpx

PID = 'C20'
SHARDS = {'quick': 1, 'thorough': 8}


def write(path, text):
    os.makedirs(os.path.dirname(path), exist_ok=True)
    with open(path, 'w', encoding='utf-8', newline='') as f:
        f.write(text)


def read(path):
    with open(path, 'r', encoding='utf-8', newline='') as f:
        return f.read()


def variants(doc, rng):
    """LF/CRLF x final newline or not."""
    out = []
    for crlf in (False, True):
        for final in (True, False):
            doc.crlf = crlf
            out.append((f'{"CRLF" if crlf else "LF"}{"" if final else "-nofinal"}', doc.text(0, final_newline=final)))
    doc.crlf = False
    # lone CR line ends (classic Mac), mixed line ends in one file, blank lines after the last record
    lf = doc.text(0)
    ls_ = lf.split('\n')
    out.append(('CR', lf.replace('\n', '\r')))
    out.append(('mixed', ''.join(l_ + ['\n', '\r\n', '\r'][i_ % 3] for i_, l_ in enumerate(ls_[:-1]))))
    out.append(('LF-trailing-blank-lines', lf + '\n\n'))
    # a text whose first character is U+FEFF (what an editor's "UTF-8 with BOM" leaves in front): a character of the text like any
    # other - whatever loads makes of it (it refuses: '\ufeff**kern' is no header), load makes the same of the file with these bytes
    out.append(('leading-U+FEFF', '\ufeff' + lf))
    out.append(('leading-blank-line-and-U+FEFF', '\n\ufeff' + lf))
    return out


def api_kern2ekern(text):
    """What the API produces for the converter's job; -> (text or None, had_errors)"""
    import kernpy as kp
    d, e, exc = kpx.loads(text)
    if exc is not None:
        return None, True
    if e:
        return None, True
    return kp.dumps(d, spine_types=['**kern'], include=kp.BEKERN_CATEGORIES, encoding=kp.Encoding.eKern), False


def run_cli(args, env=None, strace_log=None):
    cmd = [sys.executable, '-m', 'kernpy'] + args
    if strace_log:
        cmd = ['strace', '-f', '-e', 'trace=openat,mkdir', '-o', strace_log] + cmd
    e = dict(os.environ)
    # the tree under test only (no harness modules): /repo, or the scratch tree of a seeded-change trial
    e['PYTHONPATH'] = str(REPO)
    if env:
        e.update(env)
    return subprocess.run(cmd, capture_output=True, text=True, timeout=120, env=e, cwd='/')


def cli_inprocess(args):
    """Runs kernpy.__main__.main() in this process with patched argv (same code path as `python -m kernpy`)."""
    import contextlib
    import io
    import kernpy.__main__ as M
    old = sys.argv
    sys.argv = ['kernpy'] + args
    buf, err = io.StringIO(), io.StringIO()
    try:
        with contextlib.redirect_stdout(buf), contextlib.redirect_stderr(err):
            M.main()
        return 0, buf.getvalue(), err.getvalue()
    except SystemExit as e:
        return int(e.code or 0), buf.getvalue(), err.getvalue()
    except Exception as e:  # noqa
        return 1, buf.getvalue(), f'{type(e).__name__}: {e}'
    finally:
        sys.argv = old


def file_level(ctx: Ctx, cs, base):
    import kernpy as kp
    doc, pname = make_doc(cs, None, hostile_text=0.5)
    rng = random.Random(cs ^ 0xC20)
    for vname, text in variants(doc, rng):
        ctx.ev()
        ctx.mon('load_vs_loads')
        p = os.path.join(base, f'd{cs % 10 ** 6}', f'{vname}.krn')
        write(p, text)
        case = {'case_seed': cs, 'variant': vname, 'text': text}
        d1, e1, x1 = kpx.loads(text)
        try:
            # the path as str or as pathlib.Path (both documented)
            d2, e2 = kp.load(Path(p) if cs % 2 else p)
            ctx.mon(f'load_path_form:{"Path" if cs % 2 else "str"}')
            x2 = None
        except Exception as ex:
            d2, e2, x2 = None, None, ex
        if (x1 is None) != (x2 is None):
            ctx.violation('load-vs-loads', f'[{vname}] load {"raised " + repr(x2) if x2 else "succeeded"} but loads '
                          f'{"raised " + repr(x1) if x1 else "succeeded"}', case)
            continue
        if x1 is not None:
            continue
        if kpx.snapshot(d1) != kpx.snapshot(d2):
            ctx.violation('load-vs-loads', f'[{vname}] load(file) and loads(text) build different documents', case)
            continue
        if [(t.line, t.encoding) for t in e1] != [(t.line, t.encoding) for t in e2]:
            ctx.violation('load-vs-loads', f'[{vname}] different error lists', case)
        if 'hostile_text' in doc.tags and vname != 'LF':
            ctx.nontriv(cs, vname)
        # relative paths: resolved against the current directory of the caller, like open()
        if vname == 'LF':
            here = os.getcwd()
            wd = os.path.join(base, f'd{cs % 10 ** 6}', 'cwd')
            os.makedirs(wd, exist_ok=True)
            ctx.ev()
            ctx.mon('relative_path_cases')
            try:
                os.chdir(wd)
                s_rel, err_rel = kpx.dumps(d1)
                if err_rel is None:
                    try:
                        kp.dump(d2, os.path.join('rel', 'sub', 'out.krn'))
                        got_rel = read(os.path.join(wd, 'rel', 'sub', 'out.krn')) if os.path.exists(os.path.join(wd, 'rel', 'sub', 'out.krn')) else None
                        if got_rel != s_rel:
                            ctx.violation('dump-vs-dumps', f'dump to the relative path rel/sub/out.krn from {wd}: the file there '
                                          f'{"is missing" if got_rel is None else "differs from dumps"}', dict(case, relative=True))
                        else:
                            d3, e3 = kp.load(os.path.join('rel', 'sub', 'out.krn'))
                            if kpx.dumps(d3)[0] != kpx.dumps(kpx.loads(s_rel)[0])[0]:
                                ctx.violation('load-vs-loads', 'load of a relative path differs from loads of the same text', dict(case, relative=True))
                    except Exception as ex:
                        ctx.violation('dump-vs-dumps', f'dump / load with a relative path raised {type(ex).__name__}: {ex}', dict(case, relative=True))
            finally:
                os.chdir(here)
        # dump == dumps, into existing and missing nested directories, several option sets
        optsets = [{}, {'encoding': kp.Encoding.eKern}, {'spine_types': ['**kern'], 'encoding': kp.Encoding.bEkern},
                   {'exclude': {kp.TokenCategory.DECORATION}}, {'spine_types': ['**mens']}, {'spine_ids': []},
                   {'include': {kp.TokenCategory.LINE_BREAK}}, {'from_measure': 1, 'to_measure': 1}]
        o = optsets[rng.randrange(len(optsets))]
        for sub, o in (('', o), ('new/nested/dir', o), ('', optsets[4 + rng.randrange(3)])):
            ctx.ev()
            ctx.mon('dump_vs_dumps')
            s, err = kpx.dumps(d1, **o)
            if err is not None:
                continue
            outp = os.path.join(base, f'd{cs % 10 ** 6}', sub, f'out-{vname}.krn')
            try:
                kp.dump(d2, Path(outp) if (cs // 2) % 2 else outp, **o)
                ctx.mon(f'dump_path_form:{"Path" if (cs // 2) % 2 else "str"}')
                got = read(outp)
            except Exception as ex:
                ctx.violation('dump-vs-dumps', f'dump into {"a missing nested" if sub else "an existing"} directory raised '
                              f'{type(ex).__name__}: {ex}', dict(case, options=str(o)))
                continue
            if got != s:
                ctx.violation('dump-vs-dumps', f'the file written by dump differs from the string returned by dumps ({len(got)} vs {len(s)} chars)',
                              dict(case, options=str(o)))
                continue
            # an option set that dumps rejects: dump raises as well and writes nothing - neither over the file just written
            # nor at a fresh path (dumps returned no string, so there is no string to write)
            bad = [{'from_measure': 1, 'to_measure': 0}, {'to_measure': 9999}, {'from_measure': -1},
                   {'from_measure': 3, 'to_measure': 2}][rng.randrange(4)]
            _, berr = kpx.dumps(d1, **bad)
            if berr is None:
                ctx.mon('rejected_option_set_accepted_by_dumps (C07 decides)')
                continue
            fresh = os.path.join(base, f'd{cs % 10 ** 6}', sub, 'rejected', f'never-{vname}.krn')
            for target in (outp, fresh):
                ctx.ev()
                ctx.mon('rejected_dumps')
                try:
                    kp.dump(d2, target, **bad)
                    ctx.violation('dump-vs-dumps', f'dumps rejects {bad} with {type(berr).__name__} but dump wrote a file',
                                  dict(case, options=str(bad)))
                    continue
                except Exception as ex:  # noqa
                    if type(ex) is not type(berr):
                        ctx.violation('dump-vs-dumps', f'dumps rejects {bad} with {type(berr).__name__}, dump with {type(ex).__name__}',
                                      dict(case, options=str(bad)))
                        continue
                if target is outp:
                    now = read(outp) if os.path.exists(outp) else None
                    if now != s:
                        ctx.violation('dump-vs-dumps', f'a rejected dump ({bad}) changed the file written by an earlier dump '
                                      f'({len(s)} chars before, {"missing" if now is None else len(now)} after)', dict(case, options=str(bad)))
                elif os.path.exists(fresh):
                    ctx.violation('dump-vs-dumps', f'a rejected dump ({bad}) left a file of {os.path.getsize(fresh)} bytes behind',
                                  dict(case, options=str(bad)))


def cli_level(ctx: Ctx, cs, base, real=False, strace=False):
    import kernpy as kp
    rng = random.Random(cs ^ 0xC11)
    doc, pname = make_doc(cs, ['kern_only', 'default', 'texty'][cs % 3], hostile_text=0.5)
    text = doc.text(0)
    root = os.path.join(base, f'cli{cs % 10 ** 6}')
    case = {'case_seed': cs, 'text': text, 'real_subprocess': real}
    run0 = (lambda a, **k: (lambda r: (r.returncode, r.stdout, r.stderr))(run_cli(a, **k))) if real else (lambda a, **k: cli_inprocess(a))
    # how much the command talks (--verbose 0 / 1 / 2 / left at its default) is no part of what it writes into the files
    vb = [['--verbose', '0'], ['--verbose', '1'], ['--verbose', '2'], []][(cs // 3) % 4]
    ctx.mon(f'cli_verbosity:{" ".join(vb) or "default"}')

    def run(a, **k):
        a = list(a)
        if '--verbose' in a:
            i_ = a.index('--verbose')
            del a[i_:i_ + 2]
        return run0(a + vb, **k)
    expect, had_err = api_kern2ekern(text)
    # 1. single file, default output name
    f = os.path.join(root, 'single', 'score.krn')
    write(f, text)
    ctx.ev()
    ctx.mon('cli_runs')
    ctx.mon('cli_real_subprocess' if real else 'cli_in_process')
    kw = {}
    slog = None
    if real and strace:
        slog = os.path.join(root, 'strace.log')
        kw['strace_log'] = slog
    rc, so, se = run(['--kern2ekern', '--input_path', f, '--verbose', '0'], **kw)
    outp = os.path.join(root, 'single', 'score.ekrn')
    if had_err:
        if os.path.exists(outp):
            ctx.violation('cli-kern2ekern', 'input with import errors: an output file was written', case)
        return
    if not os.path.exists(outp):
        ctx.violation('cli-kern2ekern', f'no output file written (exit {rc}): {se[-300:]}', case)
        return
    got = read(outp)
    if got != expect:
        gl, el = got.split('\n'), expect.split('\n')
        j = next((i for i in range(min(len(gl), len(el))) if gl[i] != el[i]), min(len(gl), len(el)))
        ctx.violation('cli-kern2ekern', f'CLI output differs from dumps(spine_types=[**kern], include=BEKERN_CATEGORIES, encoding=eKern): '
                      f'{len(gl)} vs {len(el)} lines, first difference line {j + 1}: {gl[j] if j < len(gl) else "<end>"!r} vs '
                      f'{el[j] if j < len(el) else "<end>"!r}', case)
        return
    if slog:
        created = []
        for ln in open(slog, encoding='utf-8', errors='replace'):
            if ('O_CREAT' in ln or 'mkdir(' in ln) and '= -1' not in ln:
                q = ln.split('"')
                if len(q) > 1:
                    created.append(q[1])
        ctx.mon('strace_runs')
        ctx.extra.setdefault('strace_files_created', []).append([c.replace(root, '<root>') for c in created][:6])
        bad = [c for c in created if not os.path.abspath(c).startswith(root) and '__pycache__' not in c and not c.startswith('/dev/')]
        if bad:
            ctx.violation('cli-writes-outside', f'the CLI created files outside its target directory: {bad[:3]}', case)
        if outp not in [os.path.abspath(c) for c in created]:
            ctx.mon('strace_output_file_not_seen')
    # 2. explicit output path, then ekern -> kern -> ekern round trip
    ctx.ev()
    ctx.mon('cli_runs')
    out2 = os.path.join(root, 'single', 'explicit.ekrn')
    run(['--kern2ekern', '--input_path', f, '--output_path', out2, '--verbose', '0'])
    if not os.path.exists(out2) or read(out2) != expect:
        ctx.violation('cli-kern2ekern', '--output_path: output missing or different from the API result', case)
        return
    back = os.path.join(root, 'single', 'back.krn')
    run(['--ekern2kern', '--input_path', out2, '--output_path', back, '--verbose', '0'])
    ctx.mon('cli_runs')
    if not os.path.exists(back) or read(back) != kp.get_kern_from_ekern(expect):
        ctx.violation('cli-ekern2kern', 'ekern2kern output differs from get_kern_from_ekern(text)', case)
        return
    again = os.path.join(root, 'single', 'again.ekrn')
    run(['--kern2ekern', '--input_path', back, '--output_path', again, '--verbose', '0'])
    ctx.mon('cli_runs')
    ctx.mon('round_trips')
    if not os.path.exists(again) or read(again) != expect:
        ctx.violation('cli-round-trip', 'ekern -> kern -> ekern does not return the original ekern', case)
    else:
        ctx.nontriv(cs, 'roundtrip', real)
    # 2b. the reverse converter on inputs with and without final newline (expected: exactly get_kern_from_ekern(text))
    for nm, src in (('nofinal', expect.rstrip('\n')), ('final', expect), ('empty', ''),
                    # the same ekern text with CRLF line ends (a file edited on another platform): the line ends are content
                    ('crlf', expect.replace('\n', '\r\n')), ('crlf-nofinal', expect.rstrip('\n').replace('\n', '\r\n')),
                    # extended text that does not announce itself: an export without its header line (exclude=[HEADER]), the data lines
                    # alone, a single extended token - the converter takes the separators out of whatever it is given
                    ('headerless', expect.split('\n', 1)[1] if '\n' in expect else expect),
                    ('data-lines-only', ''.join(ln + '\n' for ln in expect.split('\n') if '@' in ln or '·' in ln)),
                    ('one-token', '4@c@#·L\n')):
        fin = os.path.join(root, 'single', f'raw-{nm}.ekrn')
        fout = os.path.join(root, 'single', f'raw-{nm}.krn')
        write(fin, src)
        run(['--ekern2kern', '--input_path', fin, '--verbose', '0'])
        ctx.ev()
        ctx.mon('cli_runs')
        if not os.path.exists(fout) or read(fout) != kp.get_kern_from_ekern(src):
            ctx.violation('cli-ekern2kern', f'ekern2kern on an input [{nm}]: output '
                          f'{"missing" if not os.path.exists(fout) else repr(read(fout)[-20:])} differs from get_kern_from_ekern(text) '
                          f'{kp.get_kern_from_ekern(src)[-20:]!r}', case)
    # 2c. a file without any **kern spine: the API result is the empty string
    fnk = os.path.join(root, 'single', 'nokern.krn')
    write(fnk, '**text\nla\n*-\n')
    run(['--kern2ekern', '--input_path', fnk, '--verbose', '0'])
    ctx.ev()
    ctx.mon('cli_runs')
    exp_nk, _ = api_kern2ekern('**text\nla\n*-\n')
    onk = os.path.join(root, 'single', 'nokern.ekrn')
    if not os.path.exists(onk) or read(onk) != exp_nk:
        ctx.violation('cli-kern2ekern', f'file without **kern spine: output {"missing" if not os.path.exists(onk) else repr(read(onk))}, '
                      f'API gives {exp_nk!r}', case)
    # 3. directory mode
    droot = os.path.join(root, 'tree')
    # a second score, so that files with the same name in different directories have different contents
    doc2, _ = make_doc(cs ^ 0x2222, 'kern_only', max_spines=2)
    text2 = doc2.text(0)
    expect2, had_err2 = api_kern2ekern(text2)
    if had_err2:
        text2, expect2 = text, expect
    layout = {'a.krn': text, 'b.kern': text2, 'note.txt': 'not kern', 'sub/c.krn': text, 'sub/deep/d.kern': text, 'sub/e.ekrn': expect,
              'sub/a.krn': text2, 'sub/deep/a.kern': text, 'sub/deep/b.krn': text, 'other/c.krn': text2,
              # an ekern file next to a kern file of the same stem: not an input of this converter
              'sub/deep/b.ekern': expect2}
    expected_out = {'a.ekrn': expect, 'b.ekrn': expect2, 'sub/c.ekrn': expect, 'sub/deep/d.ekrn': expect, 'sub/a.ekrn': expect2,
                    'sub/deep/a.ekrn': expect, 'sub/deep/b.ekrn': expect, 'other/c.ekrn': expect2}
    for rel, t in layout.items():
        write(os.path.join(droot, rel), t)
    recursive = bool(rng.getrandbits(1))
    ctx.ev()
    ctx.mon('cli_runs')
    ctx.mon('cli_directory_runs')
    run(['--kern2ekern', '--input_path', droot, '--verbose', '0'] + (['-r'] if recursive else []))
    want = {'a.ekrn', 'b.ekrn'} | ({k for k in expected_out if '/' in k} if recursive else set())
    have = set()
    for dp, dn, fn in os.walk(droot):
        for n in fn:
            rel = os.path.relpath(os.path.join(dp, n), droot)
            if rel.endswith('.ekrn') and rel != 'sub/e.ekrn':
                have.add(rel)
    if have != want:
        ctx.violation('cli-directory', f'directory mode (recursive={recursive}) wrote {sorted(have)}, expected exactly {sorted(want)}', case)
    else:
        for rel in sorted(have):
            if read(os.path.join(droot, rel)) != expected_out[rel]:
                ctx.violation('cli-directory', f'{rel} differs from the API result for its own input file', case)
                break
    if read(os.path.join(droot, 'sub/e.ekrn')) != expect or read(os.path.join(droot, 'a.krn')) != text or \
            read(os.path.join(droot, 'sub/deep/b.ekern')) != expect2:
        ctx.violation('cli-directory', 'directory mode modified a file that is not one of its outputs', case)
    # the same command once more over the tree that now holds its own outputs: the same files with the same contents
    snap_tree = {}
    for dp, dn, fn in os.walk(droot):
        for n in fn:
            snap_tree[os.path.relpath(os.path.join(dp, n), droot)] = read(os.path.join(dp, n))
    ctx.ev()
    ctx.mon('cli_runs')
    ctx.mon('cli_directory_reruns')
    run(['--kern2ekern', '--input_path', droot, '--verbose', '0'] + (['-r'] if recursive else []))
    now_tree = {}
    for dp, dn, fn in os.walk(droot):
        for n in fn:
            now_tree[os.path.relpath(os.path.join(dp, n), droot)] = read(os.path.join(dp, n))
    if now_tree != snap_tree:
        ch = sorted(k for k in set(now_tree) | set(snap_tree) if now_tree.get(k) != snap_tree.get(k))
        ctx.violation('cli-directory', f'a second run of directory mode (recursive={recursive}) over its own output changed {ch[:4]}', case)
    # the reverse converter in directory mode: every .ekrn / .ekern becomes the .krn next to it
    eroot = os.path.join(root, 'etree')
    elayout = {'x.ekrn': expect, 'sub/x.ekrn': expect2, 'sub/y.ekern': expect, 'deep/er/x.ekern': expect2, 'z.txt': 'no'}
    for rel, t in elayout.items():
        write(os.path.join(eroot, rel), t)
    ctx.ev()
    ctx.mon('cli_runs')
    ctx.mon('cli_directory_runs')
    run(['--ekern2kern', '--input_path', eroot, '--verbose', '0'] + (['-r'] if recursive else []))
    ewant = {'x.krn': expect} if not recursive else {'x.krn': expect, 'sub/x.krn': expect2, 'sub/y.krn': expect, 'deep/er/x.krn': expect2}
    ehave = {}
    for dp, dn, fn in os.walk(eroot):
        for n in fn:
            if n.endswith('.krn'):
                rel = os.path.relpath(os.path.join(dp, n), eroot)
                ehave[rel] = read(os.path.join(dp, n))
    if set(ehave) != set(ewant):
        ctx.violation('cli-directory', f'ekern2kern directory mode (recursive={recursive}) wrote {sorted(ehave)}, expected {sorted(ewant)}', case)
    else:
        for rel, src in ewant.items():
            if ehave[rel] != kp.get_kern_from_ekern(src):
                ctx.violation('cli-directory', f'ekern2kern: {rel} differs from get_kern_from_ekern of its own input', case)
                break
    shutil.rmtree(root, ignore_errors=True)


CHILD = r'''
import json, os, sys
import kernpy as kp
base = sys.argv[1]
res = {"default_encoding": __import__("locale").getpreferredencoding(False)}
text = open(os.path.join(base, "in.krn"), encoding="utf-8", newline="").read()
def attempt(name, fn):
    try:
        res[name] = fn()
    except Exception as e:
        res[name] = "RAISED " + type(e).__name__ + ": " + str(e)[:150]
def t_dump():
    d, e = kp.load(os.path.join(base, "in.krn"))
    s = kp.dumps(d)
    kp.dump(d, os.path.join(base, "out", "dumped.krn"))
    got = open(os.path.join(base, "out", "dumped.krn"), encoding="utf-8", newline="").read()
    return [got == s, kp.dumps(kp.loads(text)[0]) == s]
attempt("dump_equals_dumps", t_dump)
def t_k2e():
    kp.kern_to_ekern(os.path.join(base, "in.krn"), os.path.join(base, "conv.ekrn"))
    got = open(os.path.join(base, "conv.ekrn"), encoding="utf-8", newline="").read()
    d, e = kp.loads(text)
    return got == kp.dumps(d, spine_types=["**kern"], include=kp.BEKERN_CATEGORIES, encoding=kp.Encoding.eKern)
attempt("kern_to_ekern_equals_api", t_k2e)
def t_e2k():
    src = open(os.path.join(base, "in.ekrn"), encoding="utf-8", newline="").read()
    kp.ekern_to_krn(os.path.join(base, "in.ekrn"), os.path.join(base, "conv.krn"))
    got = open(os.path.join(base, "conv.krn"), encoding="utf-8", newline="").read()
    return got == kp.get_kern_from_ekern(src)
attempt("ekern_to_krn_equals_api", t_e2k)
print(json.dumps(res))
'''


def locale_level(ctx: Ctx, cs, base):
    """Configuration axis: process default text encoding UTF-8 vs non-UTF-8 (PYTHONUTF8=0 LC_ALL=C)."""
    import kernpy as kp
    text = '**kern\t**text\n*clefG2\t*\n=1\t=1\n4c\tnaïve\n4d#L\tseñor\n8ee-J 8gg\tgröße\n=2\t=2\n2r\t日本\n==\t==\n*-\t*-\n'
    if cs % 2:
        text = '**kern\n*clefG2\n!!!COM: Dvořák\n*I"Flöte\n=1\n4c\n!übung\n4d\n==\n*-\n'
    root = os.path.join(base, f'loc{cs % 10 ** 6}')
    write(os.path.join(root, 'in.krn'), text)
    d, _, _ = kpx.loads(text)
    write(os.path.join(root, 'in.ekrn'), kp.dumps(d, encoding=kp.Encoding.eKern))
    for cfg, env in (('utf8-default', {}), ('ascii-default', {'PYTHONUTF8': '0', 'LC_ALL': 'C', 'LANG': 'C'})):
        ctx.ev()
        ctx.mon('locale_configurations')
        e = dict(os.environ)
        e['PYTHONPATH'] = str(REPO)
        e.update(env)
        r = subprocess.run([sys.executable, '-c', CHILD, root], capture_output=True, text=True, env=e, timeout=120, cwd='/')
        case = {'case_seed': cs, 'configuration': cfg, 'text': text}
        try:
            res = json.loads(r.stdout.strip().split('\n')[-1])
        except Exception:
            ctx.violation('locale-child-failed', f'[{cfg}] helper process failed: {r.stderr[-300:]}', case)
            continue
        ctx.mon(f'default_encoding:{res.get("default_encoding")}')
        for k in ('dump_equals_dumps', 'kern_to_ekern_equals_api', 'ekern_to_krn_equals_api'):
            v = res.get(k)
            okv = v is True or v == [True, True]
            if not okv:
                ctx.violation('locale-dependent-io', f'[{cfg}, default encoding {res.get("default_encoding")}] {k}: {v}', case)
            else:
                ctx.nontriv(cfg, k, cs % 2)
        shutil.rmtree(os.path.join(root, 'out'), ignore_errors=True)
    shutil.rmtree(root, ignore_errors=True)


def large_file_level(ctx: Ctx, cs, base):
    """Files well beyond one I/O buffer (8 KiB, 64 KiB, 128 KiB), densely filled with 2-, 3- and 4-byte characters in reference
    records, comments and lyrics, each in several byte alignments: load(path) == loads(text), dump == dumps."""
    import kernpy as kp
    rng = random.Random(cs ^ 0xB16)
    doc, pname = make_doc(cs, 'texty', hostile_text=0.6, measures=(2, 4))
    body = doc.text(0)
    hl = next(i for i, ln in enumerate(body.split('\n')) if ln.startswith('**'))
    width = len(body.split('\n')[hl].split('\t'))
    unit = rng.choice(['やよい', 'ñé', '𝄞𝄢', 'aé日𝄞', 'größe'])
    target = rng.choice([9000, 20000, 70000, 140000])
    for shift in range(0, 4):
        ctx.ev()
        ctx.mon('large_file_cases')
        pre = ('!!' + 'x' * shift + '\n') + '!!!OTL: ' + unit * (target // (2 * len(unit.encode('utf-8')))) + '\n'
        lines = body.split('\n')
        # a long local comment line inside the score as well (one cell per spine)
        k = hl + 1
        lines.insert(k, '\t'.join('!' + unit * (target // (2 * width * len(unit.encode('utf-8')))) for _ in range(width)))
        text = pre + '\n'.join(lines)
        pth = os.path.join(base, f'big{cs % 10 ** 6}', f's{shift}.krn')
        write(pth, text)
        ctx.mon(f'large_file_bytes>={min(131072, 1 << (len(text.encode("utf-8")).bit_length() - 1))}')
        case = {'case_seed': cs, 'large_file': True, 'shift': shift, 'unit': unit, 'bytes': len(text.encode('utf-8'))}
        d1, e1, x1 = kpx.loads(text)
        try:
            d2, e2 = kp.load(pth)
        except Exception as ex:
            if x1 is None:
                ctx.violation('load-vs-loads', f'load of a {case["bytes"]}-byte file raised {type(ex).__name__}: {ex}', case)
            continue
        if x1 is not None:
            ctx.violation('load-vs-loads', f'loads raised {type(x1).__name__} but load of the same {case["bytes"]}-byte text succeeded', case)
            continue
        if kpx.snapshot(d1) != kpx.snapshot(d2):
            a_, b_ = kpx.dumps(d1)[0] or '', kpx.dumps(d2)[0] or ''
            t1 = [t.encoding for t in d1.get_all_tokens()]
            t2 = [t.encoding for t in d2.get_all_tokens()]
            j = next((i for i, (p_, q_) in enumerate(zip(t1, t2)) if p_ != q_), -1)
            ctx.violation('load-vs-loads', f'load(file) and loads(text) differ for a {case["bytes"]}-byte file filled with {unit!r} '
                          f'(alignment shift {shift}); first differing token #{j}: lengths {len(t1[j]) if j >= 0 else "?"} vs '
                          f'{len(t2[j]) if j >= 0 else "?"}; exports equal: {a_ == b_}', case)
            continue
        s_, err = kpx.dumps(d1)
        if err is None:
            outp = os.path.join(base, f'big{cs % 10 ** 6}', f'out{shift}.krn')
            try:
                kp.dump(d2, outp)
                if read(outp) != s_:
                    ctx.violation('dump-vs-dumps', f'dump of a {case["bytes"]}-byte document differs from dumps', case)
            except Exception as ex:
                ctx.violation('dump-vs-dumps', f'dump of a {case["bytes"]}-byte document raised {type(ex).__name__}: {ex}', case)
        ctx.nontriv('large', cs, shift)
    shutil.rmtree(os.path.join(base, f'big{cs % 10 ** 6}'), ignore_errors=True)


def run(ctx: Ctx):
    shard_i = ctx.shard[0] if ctx.shard else 0
    base = str(SCRATCH_DIR / f'c20-{os.getpid()}')
    os.makedirs(base, exist_ok=True)
    ctx.rule = ('generated documents written to a scratch directory under /verif/.scratch with LF/CRLF line ends, with/without final newline, '
                'hostile and non-ASCII lyrics: load(path) vs loads(text) (deep snapshot, error list), dump vs dumps into existing and missing '
                'nested directories under several option sets; the CLI converters run in-process through kernpy.__main__.main and as REAL '
                'subprocesses (python -m kernpy) on a single file (default and explicit output), round trip ekern->kern->ekern, directory mode '
                'recursive / non-recursive (exactly the expected output files, inputs untouched); expected = the in-memory API; configuration '
                'axis UTF-8 vs ASCII default text encoding in helper subprocesses; strace on a sample of CLI runs lists the files really created. '
                'Non-trivial = variant with hostile text and CRLF/no final newline, completed CLI round trip, or locale configuration case; '
                'distinct by case.')
    ctx.assumptions = ['expected CLI result = dumps(loads(text), spine_types=[**kern], include=BEKERN_CATEGORIES, encoding=eKern) / get_kern_from_ekern']
    n_files, n_cli, n_real = (40, 14, 4) if ctx.tier == 'quick' else (150, 40, 6)
    try:
        for cs in cases(ctx, 'c20f', n_files):
            file_level(ctx, cs, base)
            shutil.rmtree(os.path.join(base, f'd{cs % 10 ** 6}'), ignore_errors=True)
        for cs in cases(ctx, 'c20c', n_cli):
            cli_level(ctx, cs, base, real=False)
        for i, cs in enumerate(cases(ctx, 'c20r', n_real)):
            cli_level(ctx, cs, base, real=True, strace=(i < 2))
        for cs in cases(ctx, 'c20l', 2):
            locale_level(ctx, cs, base)
        for cs in cases(ctx, 'c20b', 6 if ctx.tier == 'quick' else 30):
            large_file_level(ctx, cs, base)
        if shard_i == 0:
            # fresh processes (string first, file second; then the environment variants): ordinary scores and scores with one cell just
            # below and well above the csv module's default field limit (131 072 characters) - whatever loads does with them, load does
            from .. import envchild
            from ..common import subseed
            texts = []
            for k_ in range(3):
                dd, _ = make_doc(subseed(ctx.seed, 'c20env', k_), 'texty', measures=(1, 3), hostile_text=0.6)
                t_ = dd.text(0)
                if k_ == 1:
                    t_ = '!!!OTL: ' + 'la' * 65000 + '\n' + t_          # 130 008 characters in one record
                if k_ == 2:
                    t_ = '!!!OTL: ' + 'la' * 70010 + '\n' + t_          # 140 028 characters: beyond the default field limit
                texts.append(t_)
            texts.reverse()     # the text beyond the limit is the first thing the fresh process imports (from the string, then from the file)
            envchild.run_variants(ctx, texts, load_equals_loads_key='load-vs-loads')
    finally:
        shutil.rmtree(base, ignore_errors=True)
    ctx.floors = {'load': ('load_vs_loads', 100), 'dump': ('dump_vs_dumps', 100), 'cli': ('cli_runs', 40),
                  'real cli': ('cli_real_subprocess', 2), 'locale': ('locale_configurations', 4)}
    if ctx.monitor_events.get('strace_runs', 0) == 0 and shard_i == 0:
        ctx.mon('strace_unavailable_or_no_output')


def replay(ctx, w):
    case = w.get('case', w)
    base = str(SCRATCH_DIR / f'c20-replay-{os.getpid()}')
    os.makedirs(base, exist_ok=True)
    try:
        if case.get('large_file'):
            large_file_level(ctx, case['case_seed'], base)
        elif 'configuration' in case:
            locale_level(ctx, case['case_seed'], base)
        elif 'variant' in case:
            file_level(ctx, case['case_seed'], base)
        else:
            cli_level(ctx, case['case_seed'], base, real=case.get('real_subprocess', False))
    finally:
        shutil.rmtree(base, ignore_errors=True)
    print(case.get('text', ''))
