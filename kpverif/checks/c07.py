"""C07 - measure ranges partition the score (measure-partition checker + stage observation)."""
from __future__ import annotations

import random

from ..common import Ctx
from ..gen.workload import cases
from .. import kpx
from . import measures_common as MC

PID = 'C07'
SHARDS = {'quick': 1, 'thorough': 16}


def classify_exception(doc, exc):
    msg = str(exc)
    if 'Node signature mismatch' in msg:
        if 'nonuniform_signatures' in doc.tags:
            return 'signature-mismatch-nonuniform-spines'
        if 'midscore_signature_change' in doc.tags:
            return 'signature-mismatch-midscore-change'
        if 'nonkern_signature' in doc.tags:
            return 'signature-mismatch-nonkern-signatures'
    return 'range-raises'


def one(ctx: Ctx, cs, pname, over, core=True, derive=None):
    from ..monitors import stages
    doc, _ = MC.build(cs, pname, over)
    x = doc.text(0)
    ctx.ev()
    ctx.mon('documents')
    d, e, exc = kpx.loads(x)
    if exc is not None or e:
        ctx.mon('precondition_failed')
        return
    if derive:
        d = MC.derive_document(ctx, d, doc, x, cs, derive)
        if d is None:
            return
    kw = {'spine_types': ['**kern']} if set(doc.headers) != {'**kern'} else {}
    sc = MC.Score(doc, d, kw)
    if not sc.ok:
        ctx.mon(f'alignment_failed ({getattr(sc, "err", "")})')
        return
    ctx.cls(*sorted(doc.tags))
    ctx.cls('core' if core else 'explored')
    case = {'case_seed': cs, 'profile': pname, 'over': over, 'core': core, 'text': x, 'derive': derive}
    M = sc.M
    # measure count and iteration
    ctx.ev()
    try:
        mc = d.measures_count() if M else None
        it = list(d) if M else None
    except Exception as ex:
        ctx.violation('measure-count', f'measures_count()/iteration raised {type(ex).__name__}: {ex} (model M={M})', case)
        return
    if M and (mc != M or it != list(range(1, M + 1))):
        ctx.violation('measure-count', f'measures_count()={mc}, list(doc)={it}, model M={M} ({len([k for k in sc.kind if k == "bar"])} '
                      f'barline rows)', case)
        return
    if M == 0:
        ctx.mon('documents_without_measures')
        # no measure at all (header only, interpretations only): the rejections the statement names still apply with M = 0
        for a, b in ((None, 1), (None, 5), (-1, None), (-2, 0), (1, 0), (2, 1), (0, 3)):
            ctx.ev()
            ctx.mon('invalid_ranges')
            ctx.mon('invalid_ranges_on_documents_without_measures')
            opts = dict(kw)
            if a is not None:
                opts['from_measure'] = a
            if b is not None:
                opts['to_measure'] = b
            out, err = kpx.dumps(d, **opts)
            if err is None:
                ctx.violation('invalid-range-accepted', f'from_measure={a} to_measure={b} with M=0 did not raise (returned {len(out)} chars)',
                              dict(case, from_measure=a, to_measure=b))
            elif not isinstance(err, ValueError):
                ctx.violation('invalid-range-wrong-exception', f'from_measure={a} to_measure={b} with M=0 raised {type(err).__name__} '
                              f'instead of ValueError: {err}', dict(case, from_measure=a, to_measure=b))
        return
    # iteration yields exactly 1..M every time: also nested, interleaved and after an abandoned iteration
    ctx.ev()
    ctx.mon('iteration_protocol_checks')
    try:
        want = list(range(1, M + 1))
        nested = [(a_, b_) for a_ in d for b_ in d]
        it1, it2 = iter(d), iter(d)
        inter = []
        for _ in range(M):
            inter.append((next(it1), next(it2)))
        half = iter(d)
        next(half)
        after_abandoned = list(d)
        rest_of_half = list(half)
        probs_ = []
        if nested != [(a_, b_) for a_ in want for b_ in want]:
            probs_.append(f'nested iteration yields {len(nested)} pairs starting {nested[:3]}, expected {M * M}')
        if inter != [(m_, m_) for m_ in want]:
            probs_.append(f'two interleaved iterators yield {inter[:4]}')
        if after_abandoned != want or rest_of_half != want[1:]:
            probs_.append(f'after an abandoned iteration list(doc)={after_abandoned}, and the abandoned iterator continues with {rest_of_half}')
        if list(d) != want:
            probs_.append(f'list(doc)={list(d)}')
        if probs_:
            ctx.violation('iteration', f'iterating the document does not yield exactly 1..{M}: ' + '; '.join(probs_), case)
    except Exception as ex:
        ctx.violation('iteration', f'iteration protocol raised {type(ex).__name__}: {ex}', case)
    pickup = 'pickup' in doc.tags or 'no_opening_barline' in doc.tags
    stages.drain()
    prng = random.Random(cs ^ 0xC07)
    pairs = MC.sample_pairs(M, prng)
    if M > 14:
        ctx.cls('many_measures (ranges sampled)')
        ext = sorted({1, 2, 9, 10, 99, 100, M - 1, M} & set(range(1, M + 1)))
    else:
        ext = list(range(1, M + 1))
    extra = [(0, b) for b in ext] + [(a, None) for a in ext] + [(None, b) for b in ext]
    for a, b in pairs + extra:
        ctx.ev()
        ctx.mon('range_exports')
        opts = dict(kw)
        if a is not None:
            opts['from_measure'] = a
        if b is not None:
            opts['to_measure'] = b
        out, err = kpx.dumps(d, **opts)
        c2 = dict(case, from_measure=a, to_measure=b)
        # the same range through one ExportOptions object reused for every document and range of the run
        kpx.shared_options_check(ctx, d, opts, out, err, c2)
        lo = a if a else 1
        hi = b if b is not None else M
        if err is not None:
            ctx.violation(classify_exception(doc, err), f'from_measure={a} to_measure={b} (M={M}) raised {type(err).__name__}: {err}', c2)
            continue
        lines = [ln for ln in out.split('\n') if ln != '']
        got_data = [ln for ln in lines if MC.syntactic_kind(ln) == 'data']
        exp_data = sc.data_lines(lo, hi)
        if got_data != exp_data:
            extra_ = [ln for ln in got_data if ln not in exp_data]
            missing = [ln for ln in exp_data if ln not in got_data]
            key = 'data-lines'
            ctx.violation(key, f'from_measure={a} to_measure={b} (M={M}): data lines differ from measures {lo}..{hi} of the full '
                          f'export; {len(got_data)} exported, {len(exp_data)} expected; unexpected {extra_[:2]} missing {missing[:2]}', c2)
            continue
        got_bd = [ln for ln in lines if MC.syntactic_kind(ln) in ('bar', 'data')]
        exp_bd = sc.bar_data_slice(lo if a else 0, hi)
        if got_bd != exp_bd:
            ctx.violation('bar-data-slice', f'from_measure={a} to_measure={b} (M={M}): barline+data lines are not the source slice from '
                          f'the barline opening {lo} through the barline closing {hi}: got {got_bd[:1]}..{got_bd[-1:]}, '
                          f'expected {exp_bd[:1]}..{exp_bd[-1:]}', c2)
            continue
        if M >= 3 and a and b and (a > 1 or b < M):
            ctx.nontriv(cs, a, b)
        ctx.extra.setdefault('combos', {})
        ctx.extra['combos'][f'M={min(M, 13)} pickup={pickup} a={"first" if lo == 1 else "last" if lo == M else "mid"} '
                            f'b={"first" if hi == 1 else "last" if hi == M else "M-1" if hi == M - 1 else "mid"}'] = 1
    # "the first k measures" / "from measure k on" of every score of the run through option objects built once
    for k_ in (1, 2, 3, 4):
        for okw in ({'to_measure': k_}, {'from_measure': k_}, {'from_measure': 1, 'to_measure': k_}):
            okw = dict(kw, **okw)
            ref, rerr = kpx.dumps(d, **okw)
            ctx.ev()
            kpx.fixed_options_check(ctx, d, okw, ref, rerr, dict(case, **{a: b for a, b in okw.items() if a != 'spine_types'}))
    # single-measure exports contain every data line exactly once (checked on the union)
    ctx.ev()
    singles = []
    failed = False
    for m in (range(1, M + 1) if M <= 40 else []):
        out, err = kpx.dumps(d, from_measure=m, to_measure=m, **kw)
        if err is not None:
            failed = True
            break
        singles += [ln for ln in out.split('\n') if ln and MC.syntactic_kind(ln) == 'data']
    if M <= 40 and not failed and singles != sc.data_lines(1, M):
        ctx.violation('partition', f'the {M} single-measure exports together contain {len(singles)} data lines, the full export has '
                      f'{len(sc.data_lines(1, M))}', case)
    # out-of-range pairs must raise ValueError
    for a, b in ((-1, None), (-1, M), (-3, 1), (1, M + 1), (None, M + 1), (1, M + 7), (2, 1) if M >= 2 else (1, 0), (M, M - 1)):
        if (a, b) == (1, 0) or (b == 0 and a == M):
            pass
        ctx.ev()
        ctx.mon('invalid_ranges')
        opts = dict(kw)
        if a is not None:
            opts['from_measure'] = a
        if b is not None:
            opts['to_measure'] = b
        out, err = kpx.dumps(d, **opts)
        kpx.shared_options_check(ctx, d, opts, out, err, dict(case, from_measure=a, to_measure=b))
        if err is None:
            ctx.violation('invalid-range-accepted', f'from_measure={a} to_measure={b} with M={M} did not raise (returned {len(out)} chars)',
                          dict(case, from_measure=a, to_measure=b))
        elif not isinstance(err, ValueError):
            ctx.violation('invalid-range-wrong-exception', f'from_measure={a} to_measure={b} with M={M} raised {type(err).__name__} '
                          f'instead of ValueError: {err}', dict(case, from_measure=a, to_measure=b))
    obs = stages.drain()
    ctx.mon('stage_observations', len(obs))
    if len(ctx.samples) < 2 and M >= 3 and len(x) < 500:
        ctx.sample({'case_seed': cs, 'text': x, 'M': M, 'from_measure': 2, 'to_measure': 2,
                    'export': kpx.dumps(d, from_measure=2, to_measure=2, **kw)[0],
                    'stage_observations(from_measure,to_measure,from_stage,to_stage)': [list(o) for o in obs[:6]],
                    'measure_start_tree_stages': list(d.measure_start_tree_stages)})


def run(ctx: Ctx):
    kpx.enable_bystanders(ctx)
    from ..monitors import stages
    stages.install()
    ctx.rule = ('**kern-only documents and mixed documents exported with spine_types=[**kern] (claimed core: uniform signatures before the '
                'first measure, no mid-score signature change, splits re-joined before barlines; with/without opening barline, pickup, final '
                'barline, empty measures, tandem rows) x every pair 1<=a<=b<=M plus (0,b), (a,None), (None,b) and out-of-range pairs. '
                'Oracle: data lines of dumps(a,b) == data lines of measures a..b of the full export (byte-identical, in order); barline+data '
                'lines == source slice from the barline opening a through the barline closing b; union of single-measure exports == all data '
                'lines once; measures_count/list(doc) == model; invalid ranges raise ValueError. Explored classes (mid-score signature change, '
                'non-uniform signatures, splits across barlines, non-kern signatures) run the same oracle. '
                'Non-trivial = (document, a, b) with M>=3 and a>1 or b<M; distinct by (document, a, b).')
    ctx.assumptions = ['measure model of model/measures.py (first note/rest/null row before any barline starts measure 1)',
                       'data / barline lines of an excerpt are recognised syntactically (first character of the cells)']
    n_core, n_expl = (80, 24) if ctx.tier == 'quick' else (500, 120)
    i = 0
    for cs in cases(ctx, 'c07', n_core):
        pname, over = MC.profiles(ctx.tier)[i % len(MC.profiles(ctx.tier))]
        one(ctx, cs, pname, over, core=True)
        i += 1
    # documents without any measure (header + terminator, interpretations only)
    for k_, cs in enumerate(cases(ctx, 'c07-tiny', 12 if ctx.tier == 'quick' else 40)):
        one(ctx, cs, 'tiny', {'types': ('**kern',), 'p_sig': [0.3, 0.9][k_ % 2]}, core=True)
    # scores whose text ends without the '*-' row: after the last barline, or after the last notes
    for k_, cs in enumerate(cases(ctx, 'c07-unterminated', 10 if ctx.tier == 'quick' else 40)):
        one(ctx, cs, 'kern_core', {'unterminated': True, 'final_barline': ['always', 'never', 'always'][k_ % 3], 'measures': (1, 5),
                                   'p_split': 0.0, 'max_spines': 2}, core=True)
    # derived documents (clone / to_transposed / concat result) of core scores
    for k_, cs in enumerate(cases(ctx, 'c07-derived', n_core // 3)):
        pname, over = MC.profiles(ctx.tier)[k_ % 8]
        one(ctx, cs, pname, over, core=True, derive=['transposed', 'concat', 'clone'][k_ % 3])
    # one score of more than 1000 lines (ranges that start beyond line 1000 under the default recursion limit)
    for cs in cases(ctx, 'c07-long', 1 if ctx.tier == 'quick' else 3):
        ctx.mon('long_documents')
        one(ctx, cs, 'kern_core', {'measures': (12, 14), 'rows': (85, 95), 'max_spines': 1, 'p_split': 0.0, 'p_gcomment': 0.0, 'p_fcomment': 0.0, 'p_tandem': 0.0, 'p_null_run': 0.0, 'p_blank': 0.0, 'p_bbox': 0.0, 'empty_measures': 0.0}, core=True)
    for cs in cases(ctx, 'c07x', n_expl):
        pname, over = MC.EXPLORED[i % len(MC.EXPLORED)]
        one(ctx, cs, pname, over, core=False)
        i += 1
    if 'combos' in ctx.extra:
        ctx.extra['distinct_(M,pickup,a,b)_combinations'] = len(ctx.extra['combos'])
        ctx.extra['combos'] = sorted(ctx.extra['combos'])[:40]
    ctx.floors = {'ranges': ('range_exports', 800), 'invalid': ('invalid_ranges', 200), 'stage observer': ('stage_observations', 800)}
    stages.uninstall()


def post_merge(ctx):
    pass


def replay(ctx, w):
    case = w.get('case', w)
    one(ctx, case['case_seed'], case['profile'], case.get('over', {}), core=case.get('core', True), derive=case.get('derive'))
    print(case.get('text', ''))
