"""C17 - token queries agree with the tree and with each other (listing vs model DFS; filters vs closure of the real listing)."""
from __future__ import annotations

import random

from ..common import Ctx
from ..gen.workload import make_doc, cases
from ..model import spinepaths as SP
from ..model import cattree as CT
from ..model import grid as GM
from .. import kpx

PID = 'C17'
SHARDS = {'quick': 1, 'thorough': 16}


def expected_listing(doc):
    lines = doc.model_lines()
    infos = doc.infos()
    out = []
    for item in SP.dfs_order(lines, infos):
        if item[0] == 'g':
            out.append(({lines[item[1]][1].strip()}, 'g', item[1], None))
        else:
            _, li, col = item
            c = doc.lines[li].cells[col]
            if c.kind == 'bar':
                _, acc = GM.bar_encoding(c.obj)
                out.append((acc, c.kind, li, col))
            else:
                out.append(({c.text}, c.kind, li, col))
    return out


def one(ctx: Ctx, cs, damage=False, pname=None, over=None, derive=None):
    import kernpy as kp
    TC = kp.TokenCategory
    arg_pname = pname
    doc, pname = make_doc(cs, pname, **dict(dict(p_gcomment=0.12, p_pre_gcomment=0.5, p_post_gcomment=0.5), **(over or {})))
    n_damaged = 0
    if damage:
        # documents with malformed **kern cells are documents too: the listing holds an error token with the raw text
        from .c12 import malformed
        from ..gen.doc import Cell, KERN_LIKE
        rng = random.Random(cs ^ 0xE44)
        doc.infos()
        cand = [(li, col) for li, ln in enumerate(doc.lines) if ln.kind == 'data' for col, c in enumerate(ln.cells)
                if doc.headers[c.spine] in KERN_LIKE]
        for (li, col) in rng.sample(cand, min(len(cand), rng.randint(1, 3))):
            t, cl = malformed(rng)
            while cl == 'garbage-suffix':
                t, cl = malformed(rng)
            if rng.random() < 0.25:
                t, cl = '', 'empty-cell'      # two tabs in a row / a tab at the end of a line: a cell whose text is the empty string
            sp = doc.lines[li].cells[col].spine
            doc.lines[li].cells[col] = Cell('error', t, spine=sp)
            n_damaged += 1
        doc._infos = None
    x = doc.text(0)
    ctx.ev()
    ctx.mon('documents')
    from ..model import measures as MM
    n_meas = len(MM.measure_starts(doc))
    ctx.mon('documents_without_a_measure' if n_meas == 0 else 'documents_with_one_measure' if n_meas == 1 else 'documents_with_measures')
    d, e, exc = kpx.loads(x)
    if exc is not None or (e and not damage) or (damage and len(e) != n_damaged):
        ctx.mon('precondition_failed')
        return
    if damage:
        ctx.cls('document_with_error_tokens')
    if derive and not damage:
        # the queries on a Document obtained through the API (a clone, the result of concat over the text cut at barlines): same cells,
        # same order
        from . import measures_common as MC
        d = MC.derive_document(ctx, d, doc, x, cs, derive)
        if d is None:
            return
    ctx.cls(*sorted(doc.tags))
    case = {'case_seed': cs, 'text': x, 'damage': damage, 'pname': arg_pname, 'over': over, 'derive': derive}
    exp = expected_listing(doc)
    try:
        listing = d.get_all_tokens()
    except Exception as ex:
        ctx.violation('query-raises', f'get_all_tokens() raised {type(ex).__name__}: {ex}', case)
        return
    ctx.mon('listing_tokens', len(listing))
    if len(listing) != len(exp):
        ctx.violation('listing-length', f'get_all_tokens() returns {len(listing)} tokens, the document has {len(exp)} cells + global comments', case)
        return
    for i, (t, (acc, kind, li, col)) in enumerate(zip(listing, exp)):
        if t.encoding not in acc:
            ctx.violation('listing-order', f'token #{i} of the listing is {t.encoding!r}, spine-path order gives {sorted(acc)[0]!r} '
                          f'(source line {li + 1}, col {col}, {kind})', case)
            return
    # each node's token exactly once
    node_tokens = [n.token for st in d.tree.stages for n in st if n.token is not None]
    if sorted(map(id, node_tokens)) != sorted(map(id, listing)):
        ctx.violation('listing-multiplicity', 'the listing is not exactly the multiset of node tokens', case)
    # encodings
    ctx.ev()
    if d.get_all_tokens_encodings() != [t.encoding for t in listing]:
        ctx.violation('encodings-query', 'get_all_tokens_encodings() != encodings of get_all_tokens()', case)
    rng = random.Random(cs ^ 0xC17)
    filters = [(n,) for n in CT.ORDER]
    for _ in range(8):
        filters.append(tuple(rng.sample(CT.ORDER, rng.randint(2, 6))))
    # the empty filter in its three container forms: its closure is empty, so is the listing
    filters += [(), (), ()]
    real_cats = [t.category.name for t in listing]
    for k, f in enumerate(filters):
        ctx.ev()
        ctx.mon('filtered_listings')
        if not f:
            ctx.mon('empty_filter_listings')
        clo = CT.closure(f)
        arg = [set, list, tuple][k % 3](TC[c] for c in f)
        if len(f) == 1 and k % 4 == 3:
            arg = TC[f[0]]
        c2 = dict(case, filter=f)
        try:
            got = d.get_all_tokens(filter_by_categories=arg)
            uniq = d.get_unique_tokens(filter_by_categories=arg)
            freq = d.frequencies(token_categories=arg)
            uenc = d.get_unique_token_encodings(filter_by_categories=arg)
        except Exception as ex:
            ctx.violation('query-raises', f'filter {f}: {type(ex).__name__}: {ex}', c2)
            continue
        want = [t for t, c in zip(listing, real_cats) if c in clo]
        if list(map(id, got)) != list(map(id, want)):
            extra = [t.encoding for t in got if id(t) not in set(map(id, want))][:3]
            miss = [t.encoding for t in want if id(t) not in set(map(id, got))][:3]
            ctx.violation('filtered-listing', f'filter {f}: {len(got)} tokens, the sub-sequence of the listing whose category lies in the '
                          f'closure has {len(want)}; unexpected {extra} missing {miss}', c2)
            continue
        seen = set()
        first = []
        for t in want:
            if t.encoding not in seen:
                seen.add(t.encoding)
                first.append(t)
        if list(map(id, uniq)) != list(map(id, first)):
            ctx.violation('unique-listing', f'filter {f}: get_unique_tokens() does not keep exactly the first occurrences '
                          f'({len(uniq)} vs {len(first)})', c2)
        if uenc != [t.encoding for t in first]:
            ctx.violation('unique-listing', f'filter {f}: get_unique_token_encodings() differs from the first occurrences', c2)
        total = sum(v['occurrences'] for v in freq.values())
        if total != len(want) or set(freq) != seen:
            ctx.violation('frequencies', f'filter {f}: frequencies sum to {total}, the listing has {len(want)}', c2)
        else:
            for t in first:
                cnt = sum(1 for w_ in want if w_.encoding == t.encoding)
                if freq[t.encoding]['occurrences'] != cnt or freq[t.encoding]['category'] != t.category.name:
                    ctx.violation('frequencies', f'filter {f}: {t.encoding!r}: {freq[t.encoding]} vs count {cnt} / {t.category.name}', c2)
                    break
        if want and len(want) < len(listing):
            ctx.nontriv(cs, f)
    # comments
    comments = [ln.text.strip() for ln in doc.lines if ln.kind == 'g']
    ctx.ev()
    ctx.mon('comment_queries')
    try:
        got = d.get_metacomments()
        if got != comments:
            ctx.violation('metacomments', f'get_metacomments() = {got[:4]}, the "!!" lines are {comments[:4]}', case)
        for key in ('COM', 'OTL', 'voices', 'XYZ', 'ENC'):
            exp_k = [c for c in comments if c.startswith('!!!' + key)]
            got_k = d.get_metacomments(KeyComment=key)
            if got_k != exp_k:
                ctx.violation('metacomments', f'get_metacomments({key!r}) = {got_k}, expected {exp_k}', dict(case, key=key))
            got_c = d.get_metacomments(KeyComment=key, clear=True)
            # 'clear' is documented only for the '!!!KEY: value' format: require the same comments in the same order, each
            # returned as (a tail of) its own text
            if len(got_c) != len(exp_k) or any(not c.endswith(g_) for c, g_ in zip(exp_k, got_c)):
                ctx.violation('metacomments', f'get_metacomments({key!r}, clear=True) = {got_c}, not the {len(exp_k)} comments {exp_k} '
                              f'(each possibly without its key prefix)', dict(case, key=key))
    except Exception as ex:
        ctx.violation('query-raises', f'get_metacomments raised {type(ex).__name__}: {ex}', case)
    # monophony
    ctx.ev()
    ctx.mon('monophony_queries')
    kinds = [c.kind for ln in doc.lines for c in ln.cells]
    exp_mono = doc.headers.count('**kern') == 1 and 'chord' not in kinds and ('note' in kinds or 'rest' in kinds)
    try:
        got_mono = kp.is_monophonic(d)
        if bool(got_mono) != exp_mono:
            ctx.violation('is-monophonic', f'is_monophonic = {got_mono}; the document has {doc.headers.count("**kern")} **kern spine(s), '
                          f'{kinds.count("chord")} chords, {kinds.count("note") + kinds.count("rest")} notes/rests', case)
        ctx.mon(f'monophonic={exp_mono}')
    except Exception as ex:
        ctx.violation('query-raises', f'is_monophonic raised {type(ex).__name__}: {ex}', case)
    if len(ctx.samples) < 2 and len(x) < 350 and 'splits' in doc.tags:
        ctx.sample({'case_seed': cs, 'text': x, 'listing': [t.encoding for t in listing]})


def preorder_tokens(d):
    """The tokens of the Document's own tree, parent before children, children in order (read from the nodes, not through any query)."""
    out, stack = [], [d.tree.root]
    while stack:
        n = stack.pop()
        if n is not d.tree.root and n.token is not None:
            out.append(n.token)
        stack.extend(reversed(n.children))
    return out


def queries_agree_with_tree(ctx, d, label, case, rng):
    """The queries of `d` against d's OWN tree as it is now: listing = the tree's tokens in pre-order, the same objects; encodings,
    filtered listings, unique listings and frequencies derive from that listing."""
    import kernpy as kp
    TC = kp.TokenCategory
    ctx.ev()
    ctx.mon('tree_agreement_documents')
    tree_toks = preorder_tokens(d)
    try:
        listing = d.get_all_tokens()
        encs = d.get_all_tokens_encodings()
    except Exception as ex:
        ctx.violation('query-raises', f'[{label}] get_all_tokens() raised {type(ex).__name__}: {ex}', case)
        return
    if list(map(id, listing)) != list(map(id, tree_toks)):
        j = next((i for i, (a, b) in enumerate(zip(listing, tree_toks)) if a is not b), min(len(listing), len(tree_toks)))
        ctx.violation('listing-not-the-tree', f'[{label}] get_all_tokens() is not the sequence of the tree\'s own tokens: {len(listing)} vs '
                      f'{len(tree_toks)} tokens, first difference at #{j}: '
                      f'{listing[j].encoding if j < len(listing) else None!r} vs {tree_toks[j].encoding if j < len(tree_toks) else None!r}', case)
        return
    # (the encodings query leaves out tokens without an encoding - documented; the rests of a transposed document have none)
    if encs != [t.encoding for t in tree_toks if t.encoding is not None]:
        ctx.violation('encodings-query', f'[{label}] get_all_tokens_encodings() != the encodings of the tree\'s tokens', case)
    cats = [t.category.name for t in tree_toks]
    for f in [('NOTE_REST',), ('CORE',), ('BARLINES',), tuple(rng.sample(CT.ORDER, 3))]:
        ctx.ev()
        ctx.mon('tree_agreement_filtered_listings')
        clo = CT.closure(f)
        arg = [TC[c] for c in f]
        want = [t for t, c in zip(tree_toks, cats) if c in clo]
        try:
            got = d.get_all_tokens(filter_by_categories=arg)
            uniq = d.get_unique_tokens(filter_by_categories=arg)
            freq = d.frequencies(token_categories=arg)
        except Exception as ex:
            ctx.violation('query-raises', f'[{label}] filter {f}: {type(ex).__name__}: {ex}', dict(case, filter=f))
            continue
        if list(map(id, got)) != list(map(id, want)):
            ctx.violation('filtered-listing', f'[{label}] filter {f}: {len(got)} tokens, the tree holds {len(want)} tokens of these categories '
                          f'(or other objects)', dict(case, filter=f))
            continue
        if any(t.encoding is None for t in want):
            ctx.mon('tree_agreement_listings_with_tokens_without_encoding (unique / frequencies not judged)')
            continue
        seen, first = set(), []
        for t in want:
            if t.encoding not in seen:
                seen.add(t.encoding)
                first.append(t.encoding)
        if [t.encoding for t in uniq] != first:
            ctx.violation('unique-listing', f'[{label}] filter {f}: unique listing is not the first occurrences of the tree\'s tokens',
                          dict(case, filter=f))
        if sum(v['occurrences'] for v in freq.values()) != len(want) or set(freq) != seen:
            ctx.violation('frequencies', f'[{label}] filter {f}: frequencies do not sum to the tree\'s tokens of these categories',
                          dict(case, filter=f))


def transposed_after_queries(ctx: Ctx, cs):
    """Queries on a document, then a transposition of it, then the same queries on the result and on the source: each answers for the
    tree it belongs to as that tree is NOW (whatever was computed for an earlier state of the nodes is of no use)."""
    import kernpy as kp
    rng = random.Random(cs ^ 0x7A5)
    doc, pname = make_doc(cs, 'kern_only', allow_acc=False, p_chord=0.05)
    x = doc.text(0)
    d, e, exc = kpx.loads(x)
    if exc is not None or e:
        ctx.mon('precondition_failed')
        return
    case = {'case_seed': cs, 'text': x, 'transposed_after_queries': True}
    queries_agree_with_tree(ctx, d, 'imported', case, rng)
    d.get_unique_tokens()
    d.frequencies()
    kp.is_monophonic(d)
    name, direction = rng.choice(['M2', 'm3', 'P4', 'P5', 'octave', 'M6']), rng.choice(['up', 'down'])
    try:
        t = d.to_transposed(name, direction)
    except Exception as ex:  # noqa  (C15 decides when a transposition may be refused)
        ctx.mon(f'transposition_refused:{type(ex).__name__}')
        return
    ctx.mon('transposed_after_queries_documents')
    case = dict(case, interval=name, direction=direction)
    queries_agree_with_tree(ctx, t, f'result of to_transposed({name}, {direction}) after queries on the source', case, rng)
    queries_agree_with_tree(ctx, d, f'source after to_transposed({name}, {direction})', case, rng)
    t2 = t.clone()
    queries_agree_with_tree(ctx, t2, 'clone of the transposed document', case, rng)


def run(ctx: Ctx):
    ctx.rule = ('documents of the C01 generator with global comments before, inside and after the spines, splits and joins (a fifth of them with '
                '1..3 malformed **kern cells, i.e. error tokens in the tree). Oracle: '
                'get_all_tokens() == the spine-path model\'s DFS order (pre-header comments, each spine depth-first left to right with the '
                'merged path continuing under the first join cell, later comments), every node token once; filtered listing == sub-sequence of '
                'the REAL listing whose own category lies in the closure of the filter (37 single filters + 8 random sets, argument forms '
                'rotated), as the same objects; unique = first occurrences; frequencies sum and categories; encodings query; '
                'get_metacomments (all / key prefix / clear); is_monophonic from the abstract document. '
                'Non-trivial = (document, filter) with a proper non-empty filtered listing; distinct by (document, filter).')
    ctx.assumptions = ['DFS order as designed by kernpy (global comments chain from the root); monophony is decided document-wide']
    n = 170 if ctx.tier == 'quick' else 1000
    for k, cs in enumerate(cases(ctx, 'c17', n)):
        one(ctx, cs, damage=(k % 5 == 4))
    for k, cs in enumerate(cases(ctx, 'c17-derived', n // 6)):
        one(ctx, cs, derive=['clone', 'concat'][k % 2])
    for cs in cases(ctx, 'c17-transposed', n // 4):
        transposed_after_queries(ctx, cs)
    # boundary documents: header + terminator, interpretations only, a single line (no measure at all / exactly one)
    for k, cs in enumerate(cases(ctx, 'c17-tiny', n // 4)):
        one(ctx, cs, pname='tiny', over=[{}, {'types': ('**kern',), 'max_spines': 1}, {'types': ('**kern',), 'p_sig': 0.9},
                                         {'p_tandem': 0.6}][k % 4])
    # long scores (more than 1000 lines): one melody without any chord, one with its only chord near the end
    for k, cs in enumerate(cases(ctx, 'c17-long', 2 if ctx.tier == 'quick' else 4)):
        ctx.mon('long_documents')
        one(ctx, cs, pname='kern_core', over={'measures': (12, 14), 'rows': (85, 95), 'max_spines': 1, 'p_split': 0.0, 'p_gcomment': 0.0,
                                              'p_pre_gcomment': 0.0, 'p_post_gcomment': 0.0, 'p_fcomment': 0.0, 'p_tandem': 0.0,
                                              'p_null_run': 0.0, 'p_blank': 0.0, 'p_bbox': 0.0, 'empty_measures': 0.0,
                                              'p_chord': 0.0 if k % 2 == 0 else 0.001})
    if ctx.monitor_events.get('documents_without_a_measure', 0) < 5 and ctx.shard is None:
        ctx.inconc('fewer than 5 documents without a measure in the workload')
    if ctx.monitor_events.get('monophonic=True', 0) == 0 and ctx.shard is None:
        ctx.inconc('no monophonic document in the workload')
    ctx.floors = {'tokens': ('listing_tokens', 5000), 'filters': ('filtered_listings', 3000)}


def replay(ctx, w):
    case = w.get('case', w)
    if case.get('transposed_after_queries'):
        transposed_after_queries(ctx, case['case_seed'])
        return
    one(ctx, case['case_seed'], damage=case.get('damage', False), pname=case.get('pname'), over=case.get('over'), derive=case.get('derive'))
    print(case.get('text', ''))
