"""C18 - every spine type imports every token without loss (per-type import vs fresh kern importer + verbatim rule)."""
from __future__ import annotations

import random

from ..common import Ctx, rng_for, subseed
from ..gen import doc as G
from ..gen import notes as N
from .. import kpx

PID = 'C18'
SHARDS = {'quick': 1, 'thorough': 16}

OWN = {'**text': {'LYRICS'}, '**dynam': {'DYNAMICS'}, '**dyn': {'DYNAMICS'}, '**harm': {'HARMONY'},
       '**mxhm': {'HARMONY', 'MHXM'}, '**fing': {'FINGERING'}, '**foo': {'OTHER'}, '**silbe': {'OTHER'}}
STRUCT_CATS = {'BARLINES', 'EMPTY', 'CLEF', 'KEY_SIGNATURE', 'TIME_SIGNATURE', 'METER_SYMBOL', 'STRUCTURAL',
               'BOUNDING_BOXES', 'SIGNATURES', 'KEY_TOKEN', 'IMAGE_ANNOTATIONS', 'LINE_BREAK', 'HEADER', 'SPINE_OPERATION'}
RANDOM_ALPHABET = list('abcdefgrABCDEFG0123456789') + list('*=.!|:;#-"\',@·\\/()[]{}<>~^_%&?+ nqpXxyTtLJ') + \
    ['§', '€', 'ñ', '日', 'é', ' ']


def structure_corpus():
    out = []
    for eq in ('=', '=='):
        for num in ('', '1', '12'):
            if eq == '==' and num:
                continue
            for t in sorted(set(G.BAR_TYPES)):
                for f in ('', ';'):
                    out.append(('bar', f'{eq}{num}{t}{f}'))
    out += [('bar', '=1-'), ('bar', '=-'), ('bar', '=3a'), ('bar', '=3b')]
    out += [('null', '.'), ('null', '*')]
    out += [('clef', x) for x in sorted(set(G.CLEFS)) + ['*clefC5', '*clefP', '*clefX1'.replace('X1', 'F5')]]
    out += [('keysig', x) for x in G.KEYSIGS]
    out += [('meter', x) for x in G.METERS]
    out += [('metersym', x) for x in G.METERSYMS]
    out += [('staff', x) for x in ('*staff1', '*staff2', '*staff1/2', '*staff+1', '*staff12')]
    out += [('bbox', x) for x in ('*xywh-1:10,20,30,40', '*xywh-12:0,0,100,200')]
    # the generator's own staff and bounding-box interpretations (numbers at the edges: zero, leading zeros, many digits)
    out += [('staff' if x.startswith('*staff') else 'bbox', x) for x in G.TANDEMS if is_structural_tandem(x) and ('staff', x) not in out
            and ('bbox', x) not in out]
    return out


def is_structural_tandem(x):
    return x.startswith('*staff') or x.startswith('*xywh')


def other_corpus(rng, n_notes):
    out = []
    out += [('tandem', x) for x in G.TANDEMS if not is_structural_tandem(x)]
    # interpretations with a parameter the kern grammar may or may not know (*above:2, *centered:1, *below:12, *MM120x ...): a non-kern
    # spine keeps the whole cell
    out += [('tandem', x + sfx) for x in G.TANDEMS if not is_structural_tandem(x)
            for sfx in (':2', ':12', 'x', '.5')]
    out += [('text', x) for x in G.WORDS + G.HOSTILE_WORDS + G.SEPARATOR_WORDS]
    # cells made only of blanks: a token like any other in a non-kern spine (its text, its spine's own category)
    out += [('text', x) for x in (' ', '  ', '\u3000', '\xa0', '\x0c', ' \u2028', '\x1f', '\u2003 ', '\ufeff', '\u200b')]
    # a character outside the lexer's alphabet next to a structural token: the cell is free text as a whole
    for u in ('§', '€', 'ß', 'ø', '¿', '日', 'ü', '–', '“', '\x07'):
        for st in ('.', '=', '*', '*clefG2', '=1', '*M3/4', '==', '*staff1'):
            out.append(('text', u + st))
            out.append(('text', st[:1] + u + st[1:]) if len(st) > 1 else ('text', u + st + u))
    for _ in range(n_notes):
        r = rng.random()
        if r < 0.6:
            out.append(('note', N.rand_note(rng).render(rng, 0.6)))
        elif r < 0.8:
            out.append(('rest', N.rand_rest(rng).render(rng, 0.6)))
        else:
            out.append(('chord', N.rand_chord(rng).render(rng, 0.6)))
    return out


def check_token(ctx: Ctx, header, kind, text, kern_ref):
    """kern_ref: (fingerprint or None, consumed_all or None) from a fresh KernSpineImporter."""
    import kernpy as kp
    case = {'header': header, 'kind': kind, 'text': text}
    ctx.ev()
    ctx.mon('import_token_calls')
    try:
        tok = kp.createImporter(header).import_token(text)
    except Exception as e:
        ctx.violation('import-raises', f'createImporter({header!r}).import_token({text!r}) raised {type(e).__name__}: {e}', case)
        return
    if tok is None:
        ctx.violation('no-token', f'{header} {text!r}: import_token returned None', case)
        return
    fp = kpx.tok_fp(tok)
    kfp, consumed = kern_ref
    own = OWN.get(header, {'OTHER'})
    if kind in ('bar', 'null', 'clef', 'keysig', 'meter', 'metersym', 'staff', 'bbox'):
        shared = True
    elif kind == 'random':
        shared = kfp is not None and kfp[2] in STRUCT_CATS and consumed is True
    else:
        shared = False
    if shared:
        ctx.mon('shared_structure_cells')
        if kfp is None:
            ctx.inconc(f'generator-built structure token {text!r} is not accepted by the kern importer')
            return
        if fp != kfp:
            ctx.violation(f'structure-not-recognised', f'{header} {text!r} ({kind}): got {fp[:3]}, in a **kern spine it is {kfp[:3]}',
                          case)
        return
    ctx.mon('verbatim_cells')
    verbatim_ok = (tok.encoding == text and tok.category.name in own and type(tok).__name__ in ('SimpleToken', 'MHXMToken'))
    if verbatim_ok:
        return
    # known wrong behaviour: the kern grammar accepted a structural *prefix* of the cell and the rest was dropped
    if kfp is not None and consumed is False and kfp[2] in STRUCT_CATS and fp == kfp:
        ctx.violation('valid-prefix-accepted', f'{header} cell {text!r} imported as the structural prefix {tok.encoding!r} '
                      f'({tok.category.name}); the rest of the cell is dropped', case)
        return
    ctx.violation('not-verbatim', f'{header} {text!r} ({kind}): got {fp[:3]}, expected a verbatim token of category {sorted(own)}',
                  case)


def _outcome(fn, text):
    try:
        return ('ok',) + tuple(kpx.tok_fp(fn(text)))
    except Exception as e:  # noqa
        return ('raised', type(e).__name__)


def kern_reference(text):
    import kernpy as kp
    from ..monitors import consumption
    consumption.clear()
    try:
        tok = kp.KernSpineImporter().import_token(text)
    except Exception:
        return None, None
    last = consumption.last()
    consumed = last[1] if last is not None and last[0] == text else None
    return kpx.tok_fp(tok), consumed


def doc_level(ctx: Ctx, cs):
    """The same rows under different spine types: identical measure index and barline categories."""
    import kernpy as kp
    rng = random.Random(cs)
    prof = G.profile('default', types=('**kern', '**text'), min_spines=2, max_spines=3, hostile_text=0.4)
    d = G.gen_doc(rng, prof)
    hdr = next(ln for ln in d.lines if ln.kind == 'header')
    cols = [i for i, c in enumerate(hdr.cells) if c.text == '**text']
    if not cols:
        return
    ref = None
    for h in ['**text', '**dynam', '**dyn', '**harm', '**mxhm', '**fing', '**foo']:
        for i in cols:
            hdr.cells[i].text = h
        text = d.text()
        ctx.ev()
        ctx.mon('doc_variants')
        doc, errs, exc = kpx.loads(text)
        case = {'kind': 'doc', 'case_seed': cs, 'header': h, 'text': text}
        if exc is not None:
            ctx.violation('doc-import-raises', f'{h}: {type(exc).__name__}: {exc}', case)
            continue
        bars = []
        for st in doc.tree.stages:
            bars.append(tuple(n.token.category.name == 'BARLINES' for n in st if n.token is not None))
        # every barline cell of a column of this type, in place in the document, is the token a fresh importer of the type gives for
        # that cell alone (whatever its neighbours on the row are: the cells of a barline row need not agree)
        stage = 0
        for ln in d.lines:
            if ln.kind == 'b':
                continue
            stage += 1
            if ln.kind != 'bar' or stage >= len(doc.tree.stages) or len(doc.tree.stages[stage]) != len(ln.cells):
                continue
            for c_, n_ in zip(ln.cells, doc.tree.stages[stage]):
                if c_.spine not in cols:
                    continue
                ctx.mon('barline_cells_in_place_vs_fresh_importer')
                want = _outcome(lambda t_: kp.createImporter(h).import_token(t_), c_.text)
                got = ('ok',) + tuple(kpx.tok_fp(n_.token)) if n_.token is not None else ('none',)
                if want[0] == 'ok' and tuple(want) != tuple(got):
                    ctx.violation('barline-in-place-differs', f'{h}: barline cell {c_.text!r} (line {stage}, next to '
                                  f'{[x.text for x in ln.cells]}) is {str(got)[:120]} in the document, a fresh {h} importer gives '
                                  f'{str(want)[:120]}', case)
                    break
        sig = (tuple(doc.measure_start_tree_stages), tuple(bars), len(errs))
        if ref is None:
            ref = (h, sig)
        elif sig != ref[1]:
            what = 'measure index' if sig[0] != ref[1][0] else ('barline categories' if sig[1] != ref[1][1] else 'error count')
            ctx.violation('barlines-differ-by-type', f'{what} under {h} differs from {ref[0]}: '
                          f'{sig[0]} vs {ref[1][0]}', case)
    for i in cols:
        hdr.cells[i].text = '**text'
    ctx.nontriv('doc', text)


def run(ctx: Ctx):
    import kernpy as kp
    from ..monitors import consumption
    consumption.install()
    shard_i, shard_n = ctx.shard if ctx.shard else (0, 1)
    rng = rng_for(ctx.seed, 'c18', shard_i)
    ctx.rule = ('token corpus = every structural grammar alternative built by construction (all barline types, nulls, clefs, '
                'key/meter signatures, meter symbols, staff, bounding boxes) + non-structural cells built by construction '
                '(tandem interpretations, notes/rests/chords in random spellings, free and hostile text) + random strings over '
                'a hostile alphabet, each imported under **text **dynam **dyn **harm **mxhm **fing and two unknown headers; '
                'shared structure must equal the fresh **kern token (class, category, encoding, hidden), everything else must be '
                'a verbatim token of the type\'s own category; for random strings "shared structure" is decided by a fresh kern '
                'importer AND the input-consumption monitor. Plus histories (one importer instance per type reused for the whole corpus in shuffled orders, each outcome compared with a '
                'fresh importer) and whole documents re-headed under each type. '
                'Non-trivial = distinct (kind, text) cell that is not plain free text; distinct by text.')
    ctx.assumptions = ['own category per type: text=LYRICS, dynam/dyn=DYNAMICS, harm=HARMONY, mxhm=HARMONY|MHXM, fing=FINGERING, unknown=OTHER']
    headers = ['**text', '**dynam', '**dyn', '**harm', '**mxhm', '**fing', '**foo', '**silbe']
    n_random = 5000 if ctx.tier == 'quick' else 200000 // shard_n
    n_notes = 300 if ctx.tier == 'quick' else 1500
    corpus = structure_corpus() + other_corpus(rng, n_notes)
    for _ in range(n_random):
        k = rng.choice([1, 1, 2, 2, 3, 3, 4, 5, 6, 8])
        s = ''.join(rng.choice(RANDOM_ALPHABET) for _ in range(k))
        if rng.random() < 0.3:
            s = rng.choice(['=', '.', '*', '*clefG2', '=1', '*staff1', '*M4/4', '==', '*k[f#]']) + s
        if s == '' or '\t' in s:
            continue
        corpus.append(('random', s))
    seen = set()
    for idx, (kind, text) in enumerate(corpus):
        if (kind, text) in seen:
            continue
        seen.add((kind, text))
        ref = kern_reference(text)
        if kind != 'text':
            ctx.nontriv(kind, text)
        ctx.cls(kind)
        if ref[1] is False:
            ctx.mon('kern_partial_consumption_observed')
        for h in headers:
            check_token(ctx, h, kind, text, ref)
        if idx % 997 == 5:
            ctx.sample({'kind': kind, 'text': text, 'kern_reference': list(ref[0][:3]) if ref[0] else None,
                        'fully_consumed': ref[1]})
    # histories: ONE importer instance per header is reused for the whole corpus in shuffled orders; every outcome must be
    # the one a fresh importer gives (the outcome for a cell never depends on which cells were parsed before it)
    uniq = list(seen)
    fresh = {}
    for h in headers:
        for kind, text in uniq:
            fresh[(h, text)] = _outcome(lambda t, h=h: kp.createImporter(h).import_token(t), text)
    for rnd in range(2 if ctx.tier == 'quick' else 4):
        for h in headers:
            imp = kp.createImporter(h)
            order = uniq[:]
            rng.shuffle(order)
            prev = None
            for kind, text in order:
                ctx.ev()
                ctx.mon('reused_importer_calls')
                oc = _outcome(imp.import_token, text)
                if oc != fresh[(h, text)]:
                    ctx.violation('outcome-depends-on-history', f'{h}: a reused importer gives {str(oc)[:90]} for {text!r} right after '
                                  f'{prev!r}; a fresh importer gives {str(fresh[(h, text)])[:90]}',
                                  {'header': h, 'kind': 'history', 'text': text, 'previous': prev})
                    break
                prev = text
    n_docs = 60 if ctx.tier == 'quick' else 400 // shard_n + 1
    for i in range(n_docs):
        doc_level(ctx, subseed(ctx.seed, 'c18doc', shard_i, i))
    if shard_i == 0:
        # environment axis: the same whole documents (every non-kern type and two unknown ones) in child interpreters under other hash
        # seeds, warnings as errors, an ASCII default encoding, -O and another current directory
        from .. import envchild
        texts = []
        for i in range(4):
            rng_ = random.Random(subseed(ctx.seed, 'c18env', i))
            d_ = G.gen_doc(rng_, G.profile('default', types=('**kern', '**text', '**text'), min_spines=3, max_spines=4, hostile_text=0.5,
                                           measures=(1, 3)))
            hdr_ = next(ln for ln in d_.lines if ln.kind == 'header')
            pool = ['**dynam', '**dyn', '**harm', '**mxhm', '**fing', '**foo', '**silbe', '**recip', '**text']
            for c in hdr_.cells:
                if c.text == '**text':
                    c.text = pool[(i * 3 + hdr_.cells.index(c)) % len(pool)]
            texts.append(d_.text())
        envchild.run_variants(ctx, texts)
    ctx.extra['consumption_monitor'] = dict(consumption.COUNT)
    ctx.floors = {'tokens': ('import_token_calls', 5000), 'structure': ('shared_structure_cells', 500),
                  'documents': ('doc_variants', 100)}
    if consumption.COUNT['parses'] == 0:
        ctx.inconc('input-consumption monitor observed no parse')
    consumption.uninstall()


def replay(ctx, w):
    from ..monitors import consumption
    consumption.install()
    if w.get('kind') == 'history':
        import kernpy as kp
        imp = kp.createImporter(w['header'])
        for t in (w['previous'], w['text']):
            if t is not None:
                print(t, '->', _outcome(imp.import_token, t), ' fresh:', _outcome(lambda x: kp.createImporter(w['header']).import_token(x), t))
        ctx.ev()
    elif w.get('kind') == 'doc':
        doc_level(ctx, w['case_seed'])
    else:
        ref = kern_reference(w['text'])
        print('kern reference:', ref)
        check_token(ctx, w['header'], w['kind'], w['text'], ref)
    consumption.uninstall()
