"""C12 - malformed tokens are isolated, reported once and preserved (document diff vs clean twin + history log checker)."""
from __future__ import annotations

import re

import random

from ..common import Ctx, subseed
from ..gen.workload import make_doc, cases
from ..gen import doc as G
from ..gen import notes as N
from ..model import grid as GM
from .. import kpx

PID = 'C12'
SHARDS = {'quick': 1, 'thorough': 16}

# the last five: combining marks and singleton code points that a Unicode normalisation would rewrite
UNLEXABLE = ['§', '€', 'ß', 'ø', '¿', '日', '\u0301', '\u0303', '\u0327', '\u212b', '\u2126',
             # invisible characters: byte-order mark / zero-width no-break space, zero-width space, soft hyphen, word joiner
             '\ufeff', '\u200b', '\xad', '\u2060']


def malformed(rng):
    """-> (text, class).  Built by construction rules read off the grammar; none of them is derivable from `field`."""
    r = rng.random()
    u = rng.choice(UNLEXABLE)
    if r < 0.3:
        base = rng.choice(['4c', '8dd#', '2r', '16.ee-', '=1', '*clefG2', '4c 4e', '1CC'])
        pos = rng.choice(['start', 'end', 'alone'])
        if pos == 'start':
            return u + base, 'unknown-char'
        if pos == 'end':
            return base + u, 'unknown-char'
        return u, 'unknown-char'
    if r < 0.33:
        # a leading double quote is an ordinary character (pizzicato signifier), never a quoting mark
        return rng.choice(['"4#d', '"X"', '"=2z"', '"4', '""', '"§']), 'quoted'
    if r < 0.36:
        # blanks are characters like any other: a cell padded with a blank is malformed and must come back verbatim
        return rng.choice([' 4D', ' ', '  ', ' 8r', ' =1', ' *clefG2', ' .']), 'blank-padded'
    if r < 0.42:
        # spelled only with the character of the null token, but not a null token: reported, and kept where it stands even when
        # everything else on its line is a null token
        return rng.choice(['..', '...', '....', '..', '...']), 'null-like'
    if r < 0.48:
        return rng.choice(['4#c', '#4c', '8-d', '4nc', '2##ff', '16--E']), 'wrong-order'
    if r < 0.6:
        return rng.choice(['4', '16', '8.', '2..', '3%2', '0']), 'bare-duration'
    if r < 0.75:
        return rng.choice(['*clef', '*k[', '*M', '*M4', '*MM', '*staff', '*k[f#', '*met(', '*xywh-1:', '*Trd', '*rscale:',
                           '*xywh', '*xywh-1', '*xywh-1:10,20,30', '*xywh-1:a,2,3,4', '*>[A,', '*tb']), 'truncated'
    return rng.choice(['4c|', '=1z', '4cc4', '*clefG2x', '8r4', '4c=', '*M4/4x', '=||z', '2e#|', '4c 4e|', '16gg*', '4d!',
                       '2r$', '2rx', '2r:', '8rL', '4rT', 'rit.', '4c 4e $', '4d ', '4c 4e ', '=1 ']), 'garbage-suffix'


RE_ERRLINE = re.compile(r'Error token found at line (\d+) with encoding')
_ENV_TEXTS = []


def outcome(fn, text):
    try:
        return ('ok', kpx.tok_fp(fn(text)))
    except Exception as e:  # noqa
        return ('err', type(e).__name__)


def doc_level(ctx: Ctx, cs):
    from ..monitors import consumption
    rng = random.Random(cs ^ 0xC12)
    doc, pname = make_doc(cs, ['default', 'texty', 'splitty', 'simple'][cs % 4], p_blank=0.12, p_gcomment=0.1)
    x0 = doc.text(0)
    ctx.ev()
    ctx.mon('documents')
    d0, e0, exc = kpx.loads(x0)
    if exc is not None or e0:
        ctx.mon('precondition_failed')
        return
    y0, err = kpx.dumps(d0)
    if err is not None:
        return
    rows = GM.expected_rows(doc)
    kept = GM.suppress(rows)
    g0 = kpx.grid(y0)
    if len(g0) != len(kept) or any(len(a) != len(b) for a, b in zip(g0, kept)):
        ctx.mon('alignment_failed (C03 decides)')
        return
    real0 = {}
    for erow, grow in zip(kept, g0):
        for e, t in zip(erow, grow):
            real0[(e.line, e.col)] = t
    # candidate cells
    cand = []
    for li, ln in enumerate(doc.lines):
        if ln.kind == 'data':
            for col, c in enumerate(ln.cells):
                cand.append((li, col))
        elif ln.kind == 'interp':
            for col, c in enumerate(ln.cells):
                if c.kind == 'tandem':
                    cand.append((li, col))
        elif ln.kind == 'fcomment' and len(ln.cells) > 1:
            # a cell of a local-comment record: the record is read cell by cell like any other (what its first cell holds decides
            # nothing about the others)
            for col, c in enumerate(ln.cells):
                cand.append((li, col))
                if col:
                    cand.append((li, col))
    if not cand:
        return
    k = rng.choice([1, 1, 2, 3, 4])
    chosen = rng.sample(cand, min(k, len(cand)))
    repl = {}
    for (li, col) in chosen:
        sp_type = doc.headers[doc.lines[li].cells[col].spine]
        for _ in range(20):
            t, cl = malformed(rng)
            if sp_type in G.KERN_LIKE or not (t.startswith(('*', '=', '.'))):
                break
        repl[(li, col)] = (t, cl, sp_type)
    # damaged text
    out_lines = []
    for li, ln in enumerate(doc.lines):
        if ln.kind in ('g', 'b'):
            out_lines.append(ln.render(0))
        else:
            out_lines.append('\t'.join(repl[(li, c)][0] if (li, c) in repl else cell.render(0) for c, cell in enumerate(ln.cells)))
    x = '\n'.join(out_lines) + '\n'
    case = {'case_seed': cs, 'text': x, 'clean_text': x0,
            'replaced': [{'line': li + 1, 'col': c, 'text': v[0], 'class': v[1], 'spine': v[2]} for (li, c), v in sorted(repl.items())]}
    consumption.clear()
    if len(_ENV_TEXTS) < 8 and len(x) < 4000:
        _ENV_TEXTS.append(x)
    d, errs, exc = kpx.loads(x)
    if exc is not None:
        ctx.violation('import-raises', f'import of a document with {len(repl)} malformed cells raised {type(exc).__name__}: {exc}', case)
        return
    if cs % 4 == 1:
        # the other reporting surfaces say the same: raise_on_errors=True raises exactly when the list is not empty and names the same
        # lines in the same order; Importer.has_errors() / get_error_messages() of an importer used directly agree with the list
        import kernpy as kp
        ctx.mon('reporting_surfaces_compared')
        want_lines = [e_.line for e_ in errs]
        try:
            kp.loads(x, raise_on_errors=True)
            strict_lines = None
        except Exception as ex:  # noqa
            strict_lines = [int(n_) for n_ in RE_ERRLINE.findall(str(ex))]
        if (strict_lines is None) != (not errs) or (strict_lines is not None and strict_lines != want_lines):
            ctx.violation('reporting-surfaces-differ', f'loads(raise_on_errors=True) {"did not raise" if strict_lines is None else "names lines " + str(strict_lines[:6])}, '
                          f'the error list names lines {want_lines[:6]}', case)
        try:
            imp_ = kp.Importer()
            imp_.import_string(x)
            msg_lines = [int(n_) for n_ in RE_ERRLINE.findall(imp_.get_error_messages())]
            if bool(imp_.has_errors()) != bool(errs) or msg_lines != want_lines:
                ctx.violation('reporting-surfaces-differ', f'Importer.has_errors() = {imp_.has_errors()}, get_error_messages() names lines '
                              f'{msg_lines[:6]}; the error list names lines {want_lines[:6]}', case)
        except Exception as ex:  # noqa
            ctx.violation('reporting-surfaces-differ', f'Importer().import_string raised {type(ex).__name__}: {ex} but loads succeeded', case)
        d_s, e_s, x_s = None, None, None
        try:
            d_s, e_s = kp.loads(x0, raise_on_errors=True)
        except Exception as ex:  # noqa
            x_s = ex
        if x_s is not None or e_s or kpx.snapshot(d_s) != kpx.snapshot(d0):
            ctx.violation('reporting-surfaces-differ', f'the undamaged text with raise_on_errors=True '
                          f'{"raised " + type(x_s).__name__ if x_s is not None else "gives another document"}', case)
    if cs % 3 == 0:
        # the same damaged text read from a file must give the same errors and tokens
        import os
        import kernpy as kp
        from ..common import SCRATCH_DIR
        SCRATCH_DIR.mkdir(exist_ok=True)
        pth = str(SCRATCH_DIR / f'c12-{os.getpid()}.krn')
        with open(pth, 'w', encoding='utf-8', newline='') as fh:
            fh.write(x)
        ctx.mon('file_imports')
        try:
            df, ef = kp.load(pth)
            if [(t_.line, t_.encoding) for t_ in ef] != [(t_.line, t_.encoding) for t_ in errs] or kpx.snapshot(df) != kpx.snapshot(d):
                ctx.violation('file-import-differs', f'load(file) reports {[(t_.line, t_.encoding) for t_ in ef][:4]}, loads(text) reports '
                              f'{[(t_.line, t_.encoding) for t_ in errs][:4]} (or the documents differ)', case)
        except Exception as ex:
            ctx.violation('file-import-differs', f'load(file) raised {type(ex).__name__}: {ex} but loads(text) succeeded', case)
        finally:
            try:
                os.unlink(pth)
            except OSError:
                pass
    partial = {t for t, full in consumption.LOG if not full}
    if cs % 2 == 0:
        # the same damaged text below 1..3 blank lines (a triple-quoted literal, a file with leading blank lines): blank lines are
        # lines, every reported line number moves down by their number and nothing else changes
        nlead = cs % 3 + 1
        lead = ('\r\n' if cs % 5 == 0 else '\n') * nlead
        ctx.mon('imports_below_leading_blank_lines')
        d_l, errs_l, exc_l = kpx.loads(lead + x)
        if exc_l is not None:
            ctx.violation('leading-blank-lines', f'the same text below {nlead} blank line(s) raised {type(exc_l).__name__}: {exc_l}', case)
        else:
            want = [(e_.line + nlead, e_.encoding) for e_ in errs]
            got_l = [(e_.line, e_.encoding) for e_ in errs_l]
            if got_l != want:
                ctx.violation('wrong-error-line', f'below {nlead} leading blank line(s) the errors are reported at {got_l[:4]}, expected '
                              f'{want[:4]} (every line number moved down by {nlead})', dict(case, leading_blank_lines=nlead))
            elif kpx.dumps(d_l)[0] != kpx.dumps(d)[0]:
                ctx.violation('leading-blank-lines', f'the same text below {nlead} blank line(s) exports differently', case)
        consumption.clear()
    nonblank = [i for i, ln in enumerate(doc.lines) if ln.kind != 'b']
    stage_of = {li: kk + 1 for kk, li in enumerate(nonblank)}
    # expected error list
    exp_errors = []
    known_prefix = set()
    for (li, col), (t, cl, sp_type) in sorted(repl.items()):
        if sp_type in G.KERN_LIKE:
            exp_errors.append((li + 1, t, cl, col))
    got = [(e.line, e.encoding) for e in errs]
    ctx.mon('malformed_cells', len(repl))
    ctx.mon('malformed_cells_in_grammar_checked_spines', len(exp_errors))
    missing = [x_ for x_ in exp_errors if (x_[0], x_[1]) not in got]
    if [(a, b) for a, b, _, _ in exp_errors] != got:
        # classify
        exp_pairs = [(a, b) for a, b, _, _ in exp_errors]
        extra = [g for g in got if g not in exp_pairs]
        still_missing = []
        for (ln_, t, cl, col) in missing:
            node = d.tree.stages[stage_of[ln_ - 1]][col]
            if cl == 'garbage-suffix' and t in partial and not isinstance(node.token, kpx.T.ErrorToken) and \
                    t.startswith(getattr(node.token, 'encoding', '\0')[:1]):
                ctx.violation('valid-prefix-accepted', f'malformed cell {t!r} (valid token + garbage) on line {ln_} was accepted silently as '
                              f'{node.token.encoding!r}: no error reported, cell shortened', case)
                known_prefix.add((ln_ - 1, col))
            else:
                still_missing.append((ln_, t, cl))
        wrong_line = [(g, [e for e in exp_pairs if e[1] == g[1]]) for g in extra if any(e[1] == g[1] for e in exp_pairs)]
        if still_missing and not wrong_line:
            ctx.violation('error-not-reported', f'no error for malformed cell(s) {still_missing[:3]}; reported: {got[:4]}', case)
        if wrong_line:
            ctx.violation('wrong-error-line', f'error for {wrong_line[0][0][1]!r} reports line {wrong_line[0][0][0]}, the cell is on text line '
                          f'{wrong_line[0][1][0][0]}', case)
        pure_extra = [g for g in extra if not any(e[1] == g[1] for e in exp_pairs)]
        if pure_extra:
            ctx.violation('spurious-error', f'{len(pure_extra)} error(s) for cells that are not malformed, e.g. line {pure_extra[0][0]} '
                          f'{pure_extra[0][1]!r} ({len(repl)} cells were damaged: {[v[0] for v in repl.values()]})', case)
        if not still_missing and not wrong_line and not pure_extra and len(got) != len(exp_pairs) - len(known_prefix):
            ctx.violation('error-count', f'{len(got)} errors reported for {len(exp_pairs)} malformed cells: {got[:5]}', case)
    # every other token as without the damage; damaged cells: ErrorToken / verbatim text token
    if len(d.tree.stages) != len(d0.tree.stages):
        ctx.violation('tree-shape-changed', f'{len(d.tree.stages)} stages instead of {len(d0.tree.stages)}', case)
        return
    for si, (st, st0) in enumerate(zip(d.tree.stages, d0.tree.stages)):
        if len(st) != len(st0):
            ctx.violation('tree-shape-changed', f'stage {si}: {len(st)} nodes instead of {len(st0)}', case)
            return
    pos_of = {(stage_of[li], col): (li, col) for (li, col) in repl}
    for si, (st, st0) in enumerate(zip(d.tree.stages, d0.tree.stages)):
        for ni, (n, n0) in enumerate(zip(st, st0)):
            key = pos_of.get((si, ni))
            ctx.mon('tokens_compared')
            if key is None:
                if kpx.tok_fp(n.token) != kpx.tok_fp(n0.token):
                    ctx.violation('neighbour-token-changed', f'token at stage {si} col {ni} is {kpx.tok_fp(n.token)[:3]} but '
                                  f'{kpx.tok_fp(n0.token)[:3]} without the damage (damaged cells: {[v[0] for v in repl.values()]})', case)
                    return
            else:
                t, cl, sp_type = repl[key]
                if key in known_prefix:
                    continue
                if sp_type in G.KERN_LIKE:
                    if not isinstance(n.token, kpx.T.ErrorToken) or n.token.encoding != t:
                        if not (cl == 'garbage-suffix'):
                            ctx.violation('damaged-cell-token', f'malformed cell {t!r} became {kpx.tok_fp(n.token)[:3]}', case)
                else:
                    if n.token.encoding != t or isinstance(n.token, kpx.T.ErrorToken):
                        ctx.violation('free-text-cell', f'{sp_type} cell {t!r} became {kpx.tok_fp(n.token)[:3]}', case)
    # export: damaged cells verbatim in place, everything else as in the clean export
    y, err = kpx.dumps(d)
    if err is not None:
        ctx.violation('export-raises', f'export of the damaged document raised {type(err).__name__}: {err}', case)
        return
    exp_rows = []
    for row in rows:
        texts = []
        for e in row:
            if (e.line, e.col) in repl:
                texts.append(repl[(e.line, e.col)][0])
            else:
                texts.append(real0.get((e.line, e.col), e.text))
        if not GM.is_null_row(texts):
            exp_rows.append((row, texts))
    g = kpx.grid(y)
    ctx.mon('exports_compared')
    if [t for _, t in exp_rows] != g:
        j = next((i for i in range(min(len(g), len(exp_rows))) if g[i] != exp_rows[i][1]), min(len(g), len(exp_rows)))
        gj = g[j] if j < len(g) else None
        ej = exp_rows[j] if j < len(exp_rows) else None
        # is the only difference a shortened cell of the known class?
        if gj is not None and ej is not None and len(gj) == len(ej[1]) and all(
                a == b or ((c.line, c.col) in known_prefix) for a, b, c in zip(gj, ej[1], ej[0])) and known_prefix:
            pass
        else:
            ctx.violation('export-not-verbatim', f'export line {j + 1}: {gj} expected {ej[1] if ej else None} (damaged cells must appear '
                          f'verbatim in place, the rest as in the clean export)', case)
    if any(cl != 'garbage-suffix' for _, cl, sp in repl.values()) and len(repl) >= 1:
        ctx.nontriv(x)
    if len(ctx.samples) < 2 and len(x) < 500:
        ctx.sample({'case_seed': cs, 'text': x, 'replaced': case['replaced'], 'errors': [[e.line, e.encoding] for e in errs]})


def history_level(ctx: Ctx, cs, n_hist=8):
    """One spine importer instance is fed permutations/repetitions of valid and invalid tokens; the recorded log is
    checked offline: one outcome per text, equal to the fresh-importer outcome."""
    import kernpy as kp
    rng = random.Random(cs ^ 0x415)
    valid = ['4c', '8dd#L', '2r', '=1', '==', '*clefG2', '*M4/4', '.', '*', '4c 4e 4g', '16.ee-J', '*k[f#]', '*MM120', '=:|!|:']
    valid += [N.rand_note(rng).render(rng, 0.5) for _ in range(4)]
    invalid = [malformed(rng) for _ in range(8)]
    invalid = [t for t, cl in invalid if cl != 'garbage-suffix'] or ['§']
    fresh = {}
    for t in valid + invalid:
        fresh[t] = outcome(lambda s: kp.KernSpineImporter().import_token(s), t)
    log = []
    for hno in range(n_hist):
        mk = rng.choice([kp.KernSpineImporter, kp.KernSpineImporter, kp.KernSpineImporter, kp.RootSpineImporter])
        imp = mk()
        seq = [rng.choice(valid + invalid + invalid) for _ in range(rng.randint(5, 12))]
        if not any(t in invalid for t in seq[:-1]):
            seq.insert(rng.randrange(max(1, len(seq) - 1)), rng.choice(invalid))
        for sno, t in enumerate(seq):
            before = imp.error_listener.getNumberErrorsFound()
            oc = outcome(imp.import_token, t)
            after = imp.error_listener.getNumberErrorsFound()
            log.append((hno, mk.__name__, sno, t, oc, before, after))
    # offline checker over the log
    ctx.mon('history_events', len(log))
    ctx.mon('histories', n_hist)
    by_text = {}
    for hno, who, sno, t, oc, before, after in log:
        ctx.ev()
        exp = fresh[t]
        if oc != exp:
            prev = [l[3] for l in log if l[0] == hno and l[2] < sno]
            ctx.violation('outcome-depends-on-history', f'{who} history {prev + [t]}: token {t!r} gave {oc[0]} '
                          f'({oc[1] if oc[0] == "err" else oc[1][:3]}), a fresh importer gives {exp[0]} '
                          f'({exp[1] if exp[0] == "err" else exp[1][:3]}); listener errors before the call: {before}',
                          {'case_seed': cs, 'history': prev + [t], 'importer': who})
            return
        by_text.setdefault(t, set()).add(repr(oc))
    for t, s in by_text.items():
        if len(s) > 1:
            ctx.violation('outcome-depends-on-history', f'token {t!r} has {len(s)} different outcomes across histories', {'case_seed': cs})
    for hno in range(n_hist):
        seq = [l for l in log if l[0] == hno]
        bad_seen = False
        for l in seq:
            if bad_seen and fresh[l[3]][0] == 'ok':
                ctx.nontriv(cs, hno)
                break
            if fresh[l[3]][0] == 'err':
                bad_seen = True
    if len(ctx.samples) < 3:
        h0 = [l for l in log if l[0] == 0]
        ctx.sample({'history': [[l[3], l[4][0], f'listener {l[5]}->{l[6]}'] for l in h0]})


def order_level(ctx: Ctx, cs):
    """Same cells through Importer in two layouts (one column vs several columns): the per-cell outcome is the same."""
    rng = random.Random(cs ^ 0x77)
    cells = [rng.choice(['4c', '8d', '2r', '4e#', '.', '16ff']) for _ in range(8)]
    bad_pos = rng.sample(range(8), 2)
    for p in bad_pos:
        t, cl = malformed(rng)
        while cl == 'garbage-suffix':
            t, cl = malformed(rng)
        cells[p] = t
    a = '**kern\n' + '\n'.join(cells) + '\n*-\n'
    b = '**kern\t**kern\n' + '\n'.join(f'{cells[i]}\t{cells[i + 4]}' for i in range(4)) + '\n*-\t*-\n'
    res = {}
    for name, text, pos in (('column', a, lambda i: (2 + i, 0)), ('grid', b, lambda i: (2 + i % 4, i // 4))):
        ctx.ev()
        ctx.mon('order_layouts')
        d, errs, exc = kpx.loads(text)
        if exc is not None:
            ctx.violation('import-raises', f'{type(exc).__name__}: {exc}', {'case_seed': cs, 'text': text})
            return
        res[name] = [isinstance(d.tree.stages[pos(i)[0]][pos(i)[1]].token, kpx.T.ErrorToken) for i in range(8)]
    exp = [i in bad_pos for i in range(8)]
    for name in res:
        if res[name] != exp:
            ctx.violation('outcome-depends-on-history', f'layout {name}: cells {cells}: error flags {res[name]}, expected {exp}',
                          {'case_seed': cs, 'cells': cells, 'layout': name})


def run(ctx: Ctx):
    from ..monitors import consumption
    consumption.install()
    ctx.rule = ('(A) clean generated document x0 vs x = x0 with 1..4 data/tandem cells replaced by malformed text built from grammar-derived '
                'construction rules (unknown character, accidental before pitch, bare duration, truncated interpretation, valid token + '
                'garbage) in **kern/**root and in free-text spines, blank lines and global comments around: import succeeds, exactly one error '
                'per malformed cell of a grammar-checked spine with its 1-based text line and text, none for free-text spines, every other '
                'token fingerprint equals x0\'s, export = clean export with the damaged cells verbatim in place. (B) histories: one '
                'KernSpineImporter/RootSpineImporter instance fed 5..12 valid/invalid tokens; recorded log checked offline: one outcome per '
                'text, equal to a fresh importer. (C) the same cells imported column-major and row-major. Non-trivial = damaged document with a '
                'malformed cell that must be reported, or a history with an invalid token followed by a valid one; distinct by text / history.')
    ctx.assumptions = ['the construction rules produce strings with no derivation from the start rule (checked against the grammar by hand)']
    n_docs, n_hist = (140, 60) if ctx.tier == 'quick' else (800, 300)
    for cs in cases(ctx, 'c12', n_docs):
        doc_level(ctx, cs)
    for cs in cases(ctx, 'c12h', n_hist):
        history_level(ctx, cs)
    for cs in cases(ctx, 'c12o', n_hist):
        order_level(ctx, cs)
    if (ctx.shard is None or ctx.shard[0] == 0) and _ENV_TEXTS:
        # environment axis: the first damaged documents again in child interpreters (other hash seeds, warnings as errors, ASCII default
        # encoding, -O with asserts stripped, another current directory): same error list, same tokens, same exports
        from .. import envchild
        envchild.run_variants(ctx, list(_ENV_TEXTS))
    ctx.extra['consumption_monitor'] = dict(consumption.COUNT)
    ctx.floors = {'malformed cells': ('malformed_cells_in_grammar_checked_spines', 80), 'history events': ('history_events', 2000),
                  'tokens': ('tokens_compared', 5000)}
    consumption.uninstall()


def replay(ctx, w):
    from ..monitors import consumption
    consumption.install()
    case = w.get('case', w)
    if 'history' in case or 'cells' in case:
        history_level(ctx, case['case_seed'])
        order_level(ctx, case['case_seed'])
    else:
        doc_level(ctx, case['case_seed'])
        print(case.get('text', ''))
    consumption.uninstall()
