"""C10 - agnostic encoding depends only on staff position and accidental (pitch grid vs staff model; document diff akern vs kern)."""
from __future__ import annotations

import re

from collections import Counter

from ..common import Ctx
from ..gen.workload import make_doc, cases
from ..model import intervals as I
from ..model import staff as S
from ..model import grid as GM
from ..model import context as CX
from .. import kpx

PID = 'C10'
SHARDS = {'quick': 1, 'thorough': 16}

CLEFS = ['G2', 'F3', 'F4', 'C1', 'C2', 'C3', 'C4']
MARKS = ['', 'v', 'vv', '^', '^^']


def clef_text(c, mark=''):
    return f'*clef{c[0]}{mark}{c[1]}'


def pitch_grid(ctx: Ctx, kp):
    n = 0
    for c in CLEFS:
        base_clef = kp.ClefFactory.create_clef(clef_text(c))
        bl = base_clef.bottom_line()
        bname, boct = bl.name, bl.octave
        bottom = (bname[0], boct)
        ctx.ev()
        # the clef's own bottom-line pitch maps to 'e'
        got = kp.pitch_to_gkern_string(kp.AgnosticPitch(bname, boct), base_clef)
        if got != 'e' + ('#' * bname.count('+')) + ('-' * bname.count('-')):
            ctx.violation('bottom-line', f'{c}: the bottom-line pitch {bname}{boct} maps to {got!r}, expected "e"', {'clef': c})
        if c == 'G2' and bottom != S.G2_BOTTOM:
            ctx.violation('g2-identity', f'G2 bottom line is {bottom}, expected {S.G2_BOTTOM}', {'clef': c})
        for mark in MARKS:
            try:
                clef = kp.ClefFactory.create_clef(clef_text(c, mark))
            except Exception as e:
                ctx.violation('clef-factory', f'create_clef({clef_text(c, mark)!r}) raised {type(e).__name__}: {e}', {'clef': c, 'mark': mark})
                continue
            for letter in I.LETTERS:
                for alt in (0, 1, 2, -1, -2):
                    for octave in range(0, 9):
                        s = I.spell(letter, alt, octave)
                        case = {'clef': c, 'mark': mark, 'pitch': s}
                        ctx.ev()
                        ctx.mon('pitch_cases')
                        n += 1
                        try:
                            p = kp.HumdrumPitchImporter().import_pitch(s)
                            got = kp.pitch_to_gkern_string(p, clef)
                        except Exception as e:
                            ctx.violation('pitch-raises', f'{clef_text(c, mark)} {s}: {type(e).__name__}: {e}', case)
                            continue
                        exp = S.agnostic(letter, alt, octave, bottom)
                        if got != exp:
                            key = 'octave-mark-changes-position' if mark and got != exp else 'staff-translation'
                            ctx.violation(key, f'{clef_text(c, mark)} {s} -> {got!r}; {didx_msg(letter, octave, bottom)} gives {exp!r}', case)
                        if c == 'G2' and got != s:
                            ctx.violation('g2-identity', f'under {clef_text(c, mark)} {s} -> {got!r} (must be the identity)', case)
                        if c != 'G2' and alt != 0:
                            ctx.nontriv(c, mark, s)
                        if n % 1500 == 7:
                            ctx.sample({'clef': clef_text(c, mark), 'pitch': s, 'agnostic': got})
    return n


def didx_msg(letter, octave, bottom):
    k = S.didx(letter, octave) - S.didx(*bottom)
    return f'{k} steps above the bottom line {bottom[0]}{bottom[1]}'


_pairs = Counter()
_orig_cb = None


def install_pair_recorder():
    """Recorder on pitch_to_gkern_string as called by the tokenizer: (clef class, pitch) pairs actually converted."""
    global _orig_cb
    import kernpy.core.tokenizers as TZ
    if _orig_cb is not None:
        return
    _orig_cb = TZ.pitch_to_gkern_string

    def rec(pitch, clef, *a, **k):
        _pairs[type(clef).__name__] += 1
        return _orig_cb(pitch, clef, *a, **k)
    TZ.pitch_to_gkern_string = rec


def uninstall_pair_recorder():
    global _orig_cb
    import kernpy.core.tokenizers as TZ
    if _orig_cb is not None:
        TZ.pitch_to_gkern_string = _orig_cb
        _orig_cb = None


def expected_agnostic_note(note, clef, kp):
    """kern canonical text with the letters replaced under the clef (bottom line read from kernpy's clef object)."""
    cl = kp.ClefFactory.create_clef(clef)
    bl = cl.bottom_line()
    ag = S.agnostic(note.letters[0].upper(), 0, note.octave(), (bl.name[0], bl.octave))
    return ag


def _col(arow, srow, c):
    return srow.index(c)


def doc_level(ctx: Ctx, cs):
    import kernpy as kp
    doc, pname = make_doc(cs, ['kern_only', 'default', 'splitty', 'kern_only'][cs % 4], types=('**kern', '**kern', '**text', '**dynam'),
                          p_midsig=0.2, p_sig=1.0, allow_nodur=True,
                          # a fifth of the documents have '@' / '·' inside lyrics and comments (how the kern export treats them is C03's
                          # business; here only: the agnostic export treats them the same way)
                          separator_text=0.3 if cs % 5 == 2 else 0.0)
    x = doc.text(0)
    ctx.ev()
    ctx.mon('documents')
    d, e, exc = kpx.loads(x)
    if exc is not None or e:
        ctx.mon('precondition_failed')
        return
    case = {'case_seed': cs, 'text': x}
    ctx.cls(*sorted(doc.tags))
    yk, err = kpx.dumps(d, encoding=kpx.Enc.eKern)
    if err is not None:
        return
    ag = GM.annotate(doc, d, yk)
    if ag is None:
        ctx.mon('alignment_failed (C03 decides)')
        return
    cx = CX.contexts(doc)
    clef_ok = CX.all_notes_have_clef(doc)
    ya, erra = kpx.dumps(d, encoding=kpx.Enc.agnosticKern)
    yae, errae = kpx.dumps(d, encoding=kpx.Enc.agnosticExtendedKern)
    ctx.mon('agnostic_exports', 2)
    if not clef_ok:
        # the property says nothing about a note that has no clef in force: whatever happens is counted, not judged
        ctx.mon('documents_with_clefless_note (undefined by the property)')
        ctx.mon(f'clefless: akern {"raised " + type(erra).__name__ if erra is not None else "returned"}')
        return
    if erra is not None or errae is not None:
        er = erra or errae
        key = 'agnostic-export-raises'
        ctx.violation(key, f'agnostic export raised {type(er).__name__}: {er}', case)
        return
    if 'separator_in_text_cell' not in doc.tags and GM.strip_separators(yae).replace('**aekern', '**akern') != ya and \
            '\n'.join(GM.strip_separators(l) for l in yae.split('\n')) .replace('**ae', '**a') != ya:
        ctx.violation('akern-vs-aekern', 'akern is not aekern without separators', case)
    ga = kpx.grid(ya)
    if 'separator_in_text_cell' in doc.tags:
        # a row whose only content is a separator character inside a text cell is a null row once the separators are gone
        ag = [row for row in ag if not all(GM.strip_separators(c.text) in ('', '.', '*') for c in row)]
    gk = [[GM.strip_separators(c.text) for c in row] for row in ag]
    # the real kern export, cell for cell (non-note cells must be identical in both)
    yreal, errk = kpx.dumps(d)
    greal = kpx.grid(yreal) if errk is None else None
    if greal is not None and (len(greal) != len(ga) or any(len(a) != len(b) for a, b in zip(greal, ga))):
        ctx.violation('agnostic-grid-shape', f'akern export has {len(ga)} lines, kern export {len(greal)}', case)
        return
    if len(ga) != len(ag) or any(len(a) != len(b) for a, b in zip(ga, ag)):
        ctx.violation('agnostic-grid-shape', f'akern export has {len(ga)} lines, kern export {len(ag)}', case)
        return
    rich = False
    for r, (arow, krow, srow) in enumerate(zip(ga, gk, ag)):
        for oa, ok_, c in zip(arow, krow, srow):
            if c.kind == 'header':
                if oa != '**a' + ok_[3:] and oa != '**a' + c.text[3:]:
                    pass
                continue
            if c.kind not in ('note', 'chord'):
                ctx.mon('non_note_cells')
                if greal is None:
                    if oa != ok_:
                        ctx.violation('non-note-cell-changed', f'{c.kind} cell {ok_!r} is {oa!r} in akern', case)
                elif oa != greal[r][_col(arow, srow, c)]:
                    ctx.violation('non-note-cell-changed', f'{c.kind} cell is {greal[r][_col(arow, srow, c)]!r} in the kern export and {oa!r} in akern', case)
                else:
                    ctx.mon('non_note_cells_equal_to_real_kern')
                continue
            clef = cx[(c.line, c.col)]['clef']
            notes = [c.obj] if c.kind == 'note' else c.obj.notes
            kparts = ok_.split(' ')
            aparts = oa.split(' ')
            if len(kparts) != len(notes) or len(aparts) != len(notes):
                ctx.violation('chord-notes', f'{ok_!r} -> {oa!r}: note count differs', case)
                continue
            for nt, kp_, ap in zip(notes, kparts, aparts):
                if nt.rest:
                    if ap != kp_:
                        ctx.violation('rest-changed', f'rest {kp_!r} is {ap!r} in akern', case)
                    continue
                ctx.mon('notes_compared')
                ag_letters = expected_agnostic_note(nt, clef, kp)
                # expected: the kern text with the pitch letters replaced (first occurrence of the letters run after the duration)
                durtxt = ''.join(nt.dur_parts())
                if not kp_.startswith(durtxt + nt.letters):
                    ctx.mon('kern note text not in the expected shape (C03 decides)')
                    continue
                exp = durtxt + ag_letters + kp_[len(durtxt) + len(nt.letters):]
                if ap != exp:
                    disp = nt.acc and (nt.acc[0] == 'n' or nt.acc.rstrip('#-') != '')
                    key = 'natural-or-display-accidental' if disp else 'agnostic-note'
                    ctx.violation(key, f'note {kp_!r} under {clef} is {ap!r} in akern, expected {exp!r} (only the pitch letters change)', case)
                if clef not in ('*clefG2',) and nt.acc:
                    rich = True
    # the same export requested through the leaf categories only (everything except the inner categories NOTE, NOTE_REST, CORE
    # selects exactly the same material): the conversion must not depend on how the selection is spelled
    TC = kp.TokenCategory
    leafy = {c for c in TC if c.name not in ('NOTE', 'NOTE_REST', 'CORE')}
    ctx.ev()
    ctx.mon('leaf_selection_exports')
    yl, errl = kpx.dumps(d, encoding=kpx.Enc.agnosticKern, include=leafy)
    if errl is not None or yl != ya:
        gl = (yl or '').split('\n')
        j = next((i for i, (a_, b_) in enumerate(zip(gl, ya.split('\n'))) if a_ != b_), 0)
        ctx.violation('agnostic-selection-spelling', f'akern with include = all categories except NOTE/NOTE_REST/CORE '
                      f'{"raised " + repr(errl) if errl is not None else "differs from the unfiltered akern export at line " + str(j + 1) + ": " + repr(gl[j] if j < len(gl) else None) + " vs " + repr(ya.split(chr(10))[j])}', case)
    # the relation under selections that take sub-parts out of notes but never a whole cell (so both exports keep the grid of the
    # unfiltered ones): akern(selection) is kern(selection) with the same letters replaced as in the unfiltered pair
    if greal is not None and 'separator_in_text_cell' not in doc.tags:
        for sel in (['ALTERATION'], ['DECORATION'], ['ALTERATION', 'DECORATION'], ['DURATION']):
            ctx.ev()
            ctx.mon('filtered_agnostic_pairs')
            kw_ = {'exclude': [TC[c_] for c_ in sel]}
            fk, e1 = kpx.dumps(d, **kw_)
            fa, e2 = kpx.dumps(d, encoding=kpx.Enc.agnosticKern, **kw_)
            c3 = dict(case, exclude=sel)
            if e1 is not None or e2 is not None:
                if e2 is not None and e1 is None:
                    ctx.violation('agnostic-export-raises', f'akern with exclude={sel} raised {type(e2).__name__}: {e2} (kern does not)', c3)
                continue
            gfk, gfa = kpx.grid(fk), kpx.grid(fa)
            if [len(r_) for r_ in gfk] != [len(r_) for r_ in greal] or [len(r_) for r_ in gfa] != [len(r_) for r_ in ga]:
                ctx.mon('filtered_agnostic_pairs_with_another_grid (not compared)')
                continue
            bad = None
            for r_, (rk, ra, rfk, rfa) in enumerate(zip(greal, ga, gfk, gfa)):
                for ck, ca, cfk, cfa in zip(rk, ra, rfk, rfa):
                    nk, na, nfk, nfa = ck.split(' '), ca.split(' '), cfk.split(' '), cfa.split(' ')
                    if not (len(nk) == len(na) == len(nfk) == len(nfa)):
                        if cfk != cfa and not cfk.startswith('**'):
                            bad = (r_, cfk, cfa, 'cells do not have the same number of notes')
                        continue
                    for a_, b_, c_, d_ in zip(nk, na, nfk, nfa):
                        mk, ma, mfk = RE_KNOTE.match(a_), RE_KNOTE.match(b_), RE_KNOTE.match(c_)
                        if a_ == b_ or not (mk and ma and mfk) or mfk.group(2) != mk.group(2):
                            exp_ = c_ if a_ == b_ else None
                        else:
                            exp_ = mfk.group(1) + ma.group(2) + mfk.group(4)
                        if exp_ is not None and d_ != exp_ and not cfk.startswith('**'):
                            bad = (r_, c_, d_, f'expected {exp_!r}')
                if bad:
                    break
            if bad:
                ctx.violation('agnostic-note-filtered', f'exclude={sel}: line {bad[0] + 1}: kern {bad[1]!r} is {bad[2]!r} in akern ({bad[3]}): '
                              f'only the pitch letters change, as in the unfiltered pair', c3)
    transposed_level(ctx, kp, doc, x, ag, cx, case, cs)
    if rich and 'clef_change' in doc.tags:
        ctx.nontriv(x)
    if len(ctx.samples) < 8 and len(x) < 400 and rich:
        ctx.sample({'case_seed': cs, 'text': x, 'akern': ya})


RE_KNOTE = re.compile(r'^([^a-gA-Gr]*)(([a-gA-G])\3*)(.*)$', re.S)


def transposed_level(ctx, kp, doc, x, ag, cx, case, cs):
    """The same relation on a document produced by to_transposed (its pitch sub-tokens are written by the transposer, not by the
    parser): the agnostic export differs from the kern export of the SAME document only in the pitch letters of notes."""
    import random
    rng = random.Random(cs ^ 0xC10)
    d, e, exc = kpx.loads(x)       # a fresh import: to_transposed is known to touch its source (C15)
    if exc is not None or e:
        return
    name = rng.choice(['M2', 'm2', 'M3', 'm3', 'P4', 'P5', 'A4', 'm6', 'M7', 'A1', 'd5'])
    direction = rng.choice(['up', 'down'])
    try:
        t = d.to_transposed(name, direction)
    except Exception as ex:  # noqa   (C15 decides when a transposition may be refused)
        ctx.mon(f'transposition_refused:{type(ex).__name__}')
        return
    yk, errk = kpx.dumps(t)
    ya, erra = kpx.dumps(t, encoding=kpx.Enc.agnosticKern)
    ctx.ev()
    ctx.mon('transposed_documents')
    c2 = dict(case, transposed=f'{name} {direction}')
    if errk is not None:
        ctx.mon('transposed_kern_export_raised (C15 decides)')
        return
    if erra is not None:
        ctx.violation('agnostic-export-raises', f'agnostic export of the document transposed {name} {direction} raised '
                      f'{type(erra).__name__}: {erra}', c2)
        return
    gk, ga = kpx.grid(yk), kpx.grid(ya)
    if len(gk) != len(ga) or len(gk) != len(ag) or any(len(a) != len(b) or len(a) != len(c_) for a, b, c_ in zip(gk, ga, ag)):
        if len(gk) != len(ga) or any(len(a) != len(b) for a, b in zip(gk, ga)):
            ctx.violation('agnostic-grid-shape', f'transposed {name} {direction}: akern export has {len(ga)} lines, kern export {len(gk)}', c2)
        else:
            ctx.mon('transposed grid not aligned with the source grid (C15 decides)')
        return
    for krow, arow, srow in zip(gk, ga, ag):
        for ok_, oa, c in zip(krow, arow, srow):
            if c.kind == 'header':
                continue
            if c.kind not in ('note', 'chord'):
                if ok_ != oa:
                    ctx.violation('non-note-cell-changed', f'transposed {name} {direction}: {c.kind} cell {ok_!r} is {oa!r} in akern', c2)
                continue
            clef = cx[(c.line, c.col)]['clef']
            cl = kp.ClefFactory.create_clef(clef)
            bl = cl.bottom_line()
            kparts, aparts = ok_.split(' '), oa.split(' ')
            if len(kparts) != len(aparts):
                ctx.violation('chord-notes', f'transposed {name} {direction}: {ok_!r} -> {oa!r}: note count differs', c2)
                continue
            for kp_, ap in zip(kparts, aparts):
                m = RE_KNOTE.match(kp_)
                if m is None or 'r' in m.group(1):
                    if ap != kp_:
                        ctx.violation('rest-changed', f'transposed {name} {direction}: {kp_!r} is {ap!r} in akern', c2)
                    continue
                letters = m.group(2)
                octave = 3 + len(letters) if letters[0].islower() else 4 - len(letters)
                agl = S.agnostic(letters[0].upper(), 0, octave, (bl.name[0], bl.octave))
                exp = m.group(1) + agl + m.group(4)
                ctx.mon('transposed_notes_compared')
                if ap != exp:
                    ctx.violation('agnostic-note', f'transposed {name} {direction}: note {kp_!r} under {clef} is {ap!r} in akern, expected '
                                  f'{exp!r} (only the pitch letters change)', c2)


def run(ctx: Ctx):
    import kernpy as kp
    install_pair_recorder()
    shard_i = ctx.shard[0] if ctx.shard else 0
    ctx.rule = ('pitch level, exhaustive: 7 clefs x octave marks {none,v,vv,^,^^} x 7 letters x alterations -2..+2 x octaves 0..8 (11 025 cases) '
                'through pitch_to_gkern_string(import_pitch(s), create_clef(c)) vs the staff translation model (relative to the clef\'s own '
                'bottom line; identity under G2; bottom line -> e; marks irrelevant). Document level: generated documents with clef changes, '
                'chords, splits, naturals and display accidentals: akern == kern with only the pitch letters of notes replaced under the clef '
                'in force (spine-path model), aekern stripped == akern, a note without clef must raise ValueError. '
                'Non-trivial = pitch case under a non-G2 clef with an accidental / document with a clef change and an altered note under a '
                'non-G2 clef; distinct by case / text.')
    ctx.assumptions = ['the bottom-line pitch of each clef is read from kernpy (the property is relative to it); G2 must be E4']
    if shard_i == 0:
        n = pitch_grid(ctx, kp)
        ctx.extra['pitch_grid_cases'] = n
        ctx.exhaustive = True
        ctx.extra['exhaustive_scope'] = 'the 11 025-case pitch grid; documents are sampled'
    n_docs = 120 if ctx.tier == 'quick' else 800
    for cs in cases(ctx, 'c10', n_docs):
        doc_level(ctx, cs)
    ctx.extra['clef_classes_converted_by_tokenizer'] = dict(_pairs)
    ctx.floors = {'notes': ('notes_compared', 800)}
    if ctx.shard is None or shard_i == 0:
        ctx.floors['grid'] = ('pitch_cases', 11025)
    uninstall_pair_recorder()


def replay(ctx, w):
    import kernpy as kp
    case = w.get('case', w)
    if 'case_seed' in case:
        doc_level(ctx, case['case_seed'])
        print(case.get('text', ''))
    else:
        pitch_grid(ctx, kp)
