"""C08 - a measure excerpt is a self-contained, equivalent score (stand-alone Humdrum validator + context tracker)."""
from __future__ import annotations

from ..common import Ctx
from ..gen.workload import cases
from ..model import humdrum as H
from .. import kpx
from . import measures_common as MC
from .c07 import classify_exception

PID = 'C08'
SHARDS = {'quick': 1, 'thorough': 16}


def split_open_at(doc, line_idx):
    """Is a split open (more live paths than spines) on the given source line?"""
    infos = doc.infos()
    if doc.lines[line_idx].kind == 'op':
        return True   # the excerpt starts AT a spine-operator row (only possible for measure 1 without opening barline)
    return len(set(infos[line_idx].spine)) < len(infos[line_idx].spine)


def midscore_change_before(doc, sc, b):
    """Is there a mid-score signature row (not part of the initial block) at or before the end of measure b?"""
    end = sc.starts[b] if b < sc.M else len(doc.lines)
    first_start = sc.starts[0] if sc.starts else 0
    seen_data = False
    for li, ln in enumerate(doc.lines[:end]):
        if ln.kind in ('data', 'bar'):
            seen_data = True
        if seen_data and ln.kind == 'interp' and any(c.kind in ('clef', 'keysig', 'meter', 'metersym') for c in ln.cells):
            return True
    return False


def one(ctx: Ctx, cs, pname, over, core=True, derive=None):
    doc, _ = MC.build(cs, pname, over)
    x = doc.text(0)
    ctx.ev()
    ctx.mon('documents')
    d, e, exc = kpx.loads(x)
    if exc is not None or e:
        ctx.mon('precondition_failed')
        return
    if derive:
        d = MC.derive_document(ctx, d, doc, x, cs, derive)
        if d is None:
            return
    kw = {'spine_types': ['**kern']} if set(doc.headers) != {'**kern'} else {}
    sc = MC.Score(doc, d, kw)
    if not sc.ok or sc.M == 0:
        ctx.mon('skipped (alignment / no measures)')
        return
    ctx.cls(*sorted(doc.tags))
    ctx.cls('core' if core else 'explored')
    case = {'case_seed': cs, 'profile': pname, 'over': over, 'core': core, 'text': x, 'derive': derive}
    M = sc.M
    full_ctx = H.note_contexts(sc.full)
    if full_ctx is None:
        ctx.mon('full export not trackable')
        return
    ctx_of_line = {ln: c for ln, c in full_ctx}   # 1-based line number of the full export -> contexts
    nonkern_sig = 'nonkern_signature' in doc.tags
    from ..model import context as CXm
    cx_all = CXm.contexts(doc)
    import random
    prng = random.Random(cs ^ 0xC07)
    if M > 14:
        ctx.cls('many_measures (ranges sampled)')
    for a, b in MC.sample_pairs(M, prng, limit=45):
        if True:
            ctx.ev()
            ctx.mon('excerpts')
            out, err = kpx.dumps(d, from_measure=a, to_measure=b, **kw)
            c2 = dict(case, from_measure=a, to_measure=b)
            inside_split = split_open_at(doc, sc.starts[a - 1])
            midsig = midscore_change_before(doc, sc, b)
            # the mechanism of the 'nonuniform' findings is a different NUMBER of signature kinds in force in the exported spines at
            # the start of the range (their rows cannot be paired up); spines that carry the same number of kinds - whichever kinds -
            # are exported correctly by the unchanged tree, so a failure there is not that finding
            li_ = sc.starts[a - 1]
            counts_ = {sum(1 for v_ in cx_all[(li_, col_)].values() if v_ is not None)
                       for col_, c_ in enumerate(doc.lines[li_].cells) if (li_, col_) in cx_all and doc.headers[c_.spine] == '**kern'}
            unequal_counts = len(counts_) > 1

            def key(generic):
                if inside_split:
                    return 'excerpt-starts-inside-split'
                if nonkern_sig:
                    return 'nonkern-signature-rows'
                if midsig:
                    return 'midscore-signature-change'
                if 'nonuniform_signatures' in doc.tags and unequal_counts:
                    return 'nonuniform-signature-rows'
                return generic
            if err is not None:
                k = classify_exception(doc, err)
                if k == 'range-raises' and isinstance(err, RecursionError):
                    k = 'recursion-limit'
                ctx.violation(k, f'from_measure={a} to_measure={b} (M={M}) raised {type(err).__name__}: {err}', c2)
                continue
            if out == '' and not any(a <= m <= b for m in sc.measure):
                # no **kern cell exists in these measures (the exported spines ended earlier): an empty export is all there is
                ctx.mon('vacuous_ranges (no exported spine alive)')
                continue
            probs = H.validate(out)
            ctx.mon('validator_runs')
            if probs:
                ctx.violation(key('malformed-excerpt'), f'excerpt {a}..{b} (M={M}) is not well-formed Humdrum: {probs[0]}',
                              dict(c2, excerpt=out))
                continue
            d2, e2, exc2 = kpx.loads(out)
            if exc2 is not None or e2:
                ctx.violation(key('reimport-errors'), f'excerpt {a}..{b} does not re-import cleanly: {str(exc2 or e2[0])[:200]}',
                              dict(c2, excerpt=out))
                continue
            ex_ctx = H.note_contexts(out)
            idx = sc.data_line_indices(a, b)
            if ex_ctx is None or len(ex_ctx) != len(idx):
                ctx.mon('context comparison skipped (data lines differ: C07 decides)')
                continue
            ex_lines = H.split_lines(out)
            bad = None
            for (eln, ectx), fi in zip(ex_ctx, idx):
                fctx = ctx_of_line.get(fi + 1)
                cells = ex_lines[eln - 1].split('\t')
                if fctx is None or len(fctx) != len(ectx) or cells != sc.lines[fi].split('\t'):
                    bad = ('shape', eln, None, None)
                    break
                for col, (ec, fc, cell) in enumerate(zip(ectx, fctx, cells)):
                    if cell == '.':
                        continue
                    ctx.mon('note_contexts_compared')
                    if ec != fc:
                        bad = ('ctx', eln, (cell, col), (ec, fc))
                        break
                if bad:
                    break
            if bad and bad[0] == 'ctx':
                (cell, col), (ec, fc) = bad[2], bad[3]
                which = [n for n, x_, y_ in zip(('clef', 'key signature', 'meter'), ec, fc) if x_ != y_]
                ctx.violation(key('context-differs'), f'excerpt {a}..{b}: note {cell!r} (excerpt line {bad[1]}, col {col}) is governed by '
                              f'{which} = {[x_ for x_, y_ in zip(ec, fc) if x_ != y_]} in the excerpt but '
                              f'{[y_ for x_, y_ in zip(ec, fc) if x_ != y_]} in the full score', dict(c2, excerpt=out))
                continue
            if M >= 3 and (a > 1 or b < M):
                ctx.nontriv(cs, a, b)
    if len(ctx.samples) < 2 and M >= 3 and len(x) < 500:
        ctx.sample({'case_seed': cs, 'text': x, 'from_measure': 2, 'to_measure': 2,
                    'excerpt': kpx.dumps(d, from_measure=2, to_measure=2, **kw)[0]})


def run(ctx: Ctx):
    ctx.rule = ('the excerpts of C07\'s workload (every 1<=a<=b<=M). Oracle per excerpt: stand-alone Humdrum validator on the text (header '
                'first, cell count consistent with *^ *v *-, uniform line types, all spines terminated, nothing after), clean re-import, and a '
                'text-level context tracker giving (clef, key signature, meter) in force for every note of the excerpt, compared with the same '
                'note in the full export. Claimed core: **kern spines, signatures before the first measure, splits re-joined before the next '
                'barline, uniform signatures; explored and tracked: mid-score signature changes, excerpts starting inside a split, non-kern '
                'signatures, non-uniform signatures. Non-trivial = (document, a, b) with M>=3 and a>1 or b<M that passed all three oracles; '
                'distinct by (document, a, b).')
    ctx.assumptions = ['Humdrum syntax rules as coded in model/humdrum.py', 'notes are matched through the data lines (identical by C07)']
    n_core, n_expl = (80, 24) if ctx.tier == 'quick' else (500, 120)
    i = 0
    for cs in cases(ctx, 'c07', n_core):      # same seeds as C07 on purpose: same scores
        pname, over = MC.profiles(ctx.tier)[i % len(MC.profiles(ctx.tier))]
        one(ctx, cs, pname, over, core=True)
        i += 1
    for cs in cases(ctx, 'c07x', n_expl):
        pname, over = MC.EXPLORED[i % len(MC.EXPLORED)]
        one(ctx, cs, pname, over, core=False)
        i += 1
    # excerpts of derived documents (clone / to_transposed / concat result) of core scores
    # spines that carry the same NUMBER of signature kinds but not the same kinds (a staff with clef and meter beside one with clef and
    # key signature): the unchanged tree pairs their rows up and every note keeps its signatures - outside the 'nonuniform' findings
    for cs in cases(ctx, 'c08-kinds', 14 if ctx.tier == 'quick' else 60):
        one(ctx, cs, 'kern_only', {'uniform_signatures': False, 'min_spines': 2, 'max_spines': 3, 'p_sig': 1.0, 'p_split': 0.0,
                                   'p_midsig': 0.0, 'measures': (2, 4), 'p_metersym': 0.0}, core=False)
    for k_, cs in enumerate(cases(ctx, 'c08-derived', n_core // 4)):
        pname, over = MC.profiles(ctx.tier)[k_ % 8]
        one(ctx, cs, pname, over, core=True, derive=['transposed', 'concat', 'clone'][k_ % 3])
    if ctx.tier == 'thorough' and (ctx.shard is None or ctx.shard[0] == 0):
        # long silent spine: the cancellation test is recursive
        for cs in cases(ctx, 'c08long', 1):
            one(ctx, cs, 'kern_core', {'long_rows': 1300, 'measures': (2, 3), 'p_split': 0.0, 'max_spines': 1, 'p_null': 0.97,
                                       'p_rest': 0.0, 'p_chord': 0.0}, core=False)
    ctx.floors = {'excerpts': ('excerpts', 600), 'validator': ('validator_runs', 500), 'contexts': ('note_contexts_compared', 2000)}


def replay(ctx, w):
    case = w.get('case', w)
    one(ctx, case['case_seed'], case['profile'], case.get('over', {}), core=case.get('core', True), derive=case.get('derive'))
    print(case.get('text', ''))
    if 'excerpt' in case:
        print('--- excerpt ---')
        print(case['excerpt'])
