"""C13 - export options act independently: combined export vs composition of the three model transformations."""
from __future__ import annotations

import random

from ..common import Ctx
from ..gen.workload import make_doc, cases
from ..model import grid as GM
from ..model import cattree as CT
from ..model import context as CX
from ..model import staff as S
from .. import kpx

PID = 'C13'
SHARDS = {'quick': 1, 'thorough': 16}

NULLISH = ('*', '.')


def note_string(pd_cats, dec, enc, clef, kp, sel):
    """pd_cats: [(part, category)] already filtered.  -> expected string (compared after separator stripping, except
    for the extended encodings which are compared part-wise by the caller) or raises KeyError('noclef')."""
    parts = [p for p, c in pd_cats]
    if enc in ('akern', 'aekern') and any(c == 'PITCH' for _, c in pd_cats):
        if clef is None:
            raise KeyError('noclef')
        cl = kp.ClefFactory.create_clef(clef)
        bl = cl.bottom_line()
        new = []
        for p, c in pd_cats:
            if c == 'PITCH':
                octave = 3 + len(p) if p[0].islower() else 4 - len(p)
                new.append(S.agnostic(p[0].upper(), 0, octave, (bl.name[0], bl.octave)))
            else:
                new.append(p)
        parts = new
    if enc in ('bkern', 'bekern'):
        dec = []
    return parts, dec


def expected_cell(c, sel, enc, clef, kp):
    """-> (matcher description, predicate(observed), nullness)"""
    if c.kind == 'header':
        if c.cat in sel:
            txt = '**' + kpx.PREFIX[enc] + c.text[3:]   # c.text is the eKern header '**e...'
            return txt, (lambda o, t=txt: o == t), False
        return '<ph>', (lambda o: o in NULLISH), True
    if c.kind in ('note', 'rest'):
        pr = GM.parse_enote(c.text)
        pd = [(p, cat) for p, cat in pr['pd'] if cat in sel]
        dec = [x for x in pr['dec'] if 'DECORATION' in sel]
        parts, dec = note_string(pd, dec, enc, clef, kp, sel)
        return _note_matcher(parts, dec, enc, single=True)
    if c.kind == 'chord':
        if 'CHORD' not in sel:
            return '<ph>', (lambda o: o in NULLISH), True
        ms = []
        for ptxt in c.text.split(' '):
            pr = GM.parse_enote(ptxt)
            pd = [(p, cat) for p, cat in pr['pd'] if cat in sel]
            dec = [x for x in pr['dec'] if 'DECORATION' in sel]
            parts, dec = note_string(pd, dec, enc, clef, kp, sel)
            ms.append(_note_matcher(parts, dec, enc, single=False))
        desc = ' '.join(m[0] for m in ms)

        def pred(o, ms=ms):
            ps = o.split(' ')
            return len(ps) == len(ms) and all(m[1](p) for m, p in zip(ms, ps))
        nul = None if all(m[2] for m in ms) else False
        return desc, pred, nul
    if c.cat in sel:
        txt = c.text if enc in ('ekern', 'bekern', 'aekern') else c.text   # text cells carry no separators in this workload
        return txt, (lambda o, t=txt: o == t), txt in NULLISH
    return '<ph>', (lambda o: o in NULLISH), True


def _note_matcher(parts, dec, enc, single):
    empty = not parts and not dec
    if enc in ('ekern',):
        def pred(o):
            if empty:
                return o in NULLISH or o == ''
            return GM.comparable_enote(o) == (parts, dec)
        desc = '@'.join(parts) + ('·' + '·'.join(dec) if dec else '')
    elif enc == 'bekern':
        def pred(o):
            if not parts:
                return o in NULLISH or o == ''
            return GM.comparable_enote(o) == (parts, [])
        desc = '@'.join(parts)
        empty = not parts
    else:
        txt = ''.join(parts) + ''.join(dec)

        def pred(o, txt=txt):
            if txt == '':
                return o in NULLISH or o == ''
            return GM.strip_separators(o) == txt
        desc = txt
        empty = txt == ''
        if txt in NULLISH and txt != '':
            # what is left of the note reads exactly like the null token (a dot written after the pitch is all that was selected):
            # in a plain encoding the two cannot be told apart, so whether the line counts as empty is not decided here
            return desc, pred, None
    return (desc or '<empty>'), pred, (True if empty else False)


def expected_grid(ag, cx, sel, keep, enc, kp):
    rows = []
    for row in ag:
        cells = [c for c in row if c.spine in keep]
        if not cells:
            continue
        ms = []
        for c in cells:
            ms.append(expected_cell(c, sel, enc, cx.get((c.line, c.col), {}).get('clef'), kp))
        ns = [m[2] for m in ms]
        if all(n is True for n in ns):
            nul = True
        elif any(n is False for n in ns):
            nul = False
        else:
            nul = None
        rows.append((ms, nul))
    return rows


def match(rows, og):
    j = 0
    for i, (ms, nul) in enumerate(rows):
        if nul is True:
            continue
        if j < len(og) and len(og[j]) == len(ms) and all(m[1](o) for m, o in zip(ms, og[j])):
            j += 1
            continue
        if nul is None:
            continue
        return f'model row {[m[0] for m in ms]} vs exported line {j + 1}: {og[j] if j < len(og) else "<end of export>"}'
    if j != len(og):
        return f'exported line {j + 1} {og[j]} has no counterpart in the model'
    return None


def needs_clef_error(ag, cx, sel, keep, enc):
    if enc not in ('akern', 'aekern') or 'PITCH' not in sel:
        return False
    for row in ag:
        for c in row:
            if c.spine in keep and (c.kind == 'note' or (c.kind == 'chord' and 'CHORD' in sel)):
                if cx.get((c.line, c.col), {}).get('clef') is None:
                    notes = [c.obj] if c.kind == 'note' else c.obj.notes
                    if any(not n.rest for n in notes):
                        return True
    return False


_POOL = []


def rand_sel(rng):
    r = rng.random()
    if r < 0.15:
        return None, None
    if r < 0.45:
        return tuple(rng.sample(CT.ORDER, rng.randint(1, 3))) if rng.random() < 0.5 else None, \
            tuple(rng.sample(['DECORATION', 'DURATION', 'PITCH', 'ALTERATION', 'REST', 'CHORD', 'BARLINES', 'SIGNATURES', 'COMMENTS',
                              'LYRICS', 'EMPTY', 'NOTE', 'CLEF'], rng.randint(1, 2)))
    inc = tuple(rng.sample(['CORE', 'STRUCTURAL', 'SIGNATURES', 'BARLINES', 'NOTE_REST', 'DURATION', 'PITCH', 'DECORATION', 'CHORD',
                            'HEADER', 'SPINE_OPERATION', 'LYRICS', 'DYNAMICS', 'COMMENTS', 'OTHER_CONTEXTUAL', 'ALTERATION', 'EMPTY',
                            'HARMONY', 'OTHER', 'ENGRAVED_SYMBOLS', 'INSTRUMENTS', 'FINGERING'], rng.randint(2, 8)))
    exc = tuple(rng.sample(CT.ORDER, rng.randint(0, 2))) if rng.random() < 0.5 else None
    return inc, exc


def one(ctx: Ctx, cs, n_triples=110):
    import kernpy as kp
    TC = kp.TokenCategory
    doc, pname = make_doc(cs, None, p_sig=0.95, p_hidden_bar=0.3 if cs % 5 == 1 else 0.0, null_like_words=0.2 if cs % 4 == 2 else 0.02)
    x = doc.text(0)
    ctx.ev()
    ctx.mon('documents')
    d, e, exc = kpx.loads(x)
    if exc is not None or e:
        ctx.mon('precondition_failed')
        return
    E, err = kpx.dumps(d, encoding=kpx.Enc.eKern)
    if err is not None:
        return
    ag = GM.annotate(doc, d, E)
    if ag is None:
        ctx.mon('alignment_failed (C03 decides)')
        return
    ctx.cls(*sorted(doc.tags))
    cx = CX.contexts(doc)
    n = len(doc.headers)
    types = sorted(set(doc.headers))
    rng = random.Random(cs ^ 0xC13)
    case = {'case_seed': cs, 'text': x}
    # explicit defaults == omitted
    default, _ = kpx.dumps(d)
    variants = [
        dict(encoding=kp.Encoding.normalizedKern),
        dict(include=set(TC)), dict(include=list(TC), exclude=set()), dict(exclude=()), dict(exclude=[]),
        dict(spine_ids=list(range(n))), dict(spine_types=list(dict.fromkeys(doc.headers))),
        dict(from_measure=None, to_measure=None, instruments=None, show_measure_numbers=False),
        dict(encoding=kp.Encoding.normalizedKern, include=set(TC), exclude=set(), spine_ids=list(range(n)),
             spine_types=types, from_measure=None, to_measure=None, instruments=None, show_measure_numbers=False),
        dict(spine_types=list(kpx.T.HEADERS)),
    ]
    for v in variants:
        ctx.ev()
        ctx.mon('explicit_default_cases')
        out, err = kpx.dumps(d, **v)
        if err is not None or out != default:
            ctx.violation('explicit-default-differs', f'dumps with explicit defaults {sorted(v)} '
                          f'{"raised " + repr(err) if err else "differs from dumps(doc)"}', dict(case, options=str(v)))
    # option objects built once and reused for every document of the run (the default object and a few plain selections)
    for okw in ({}, {'spine_types': ['**kern']}, {'spine_ids': [0]}, {'exclude': {TC.DECORATION}, 'encoding': kp.Encoding.bEkern},
                {'include': [TC.CORE, TC.SIGNATURES, TC.BARLINES], 'encoding': kp.Encoding.eKern}):
        ref, rerr = kpx.dumps(d, **okw)
        ctx.ev()
        kpx.fixed_options_check(ctx, d, okw, ref, rerr, dict(case, options=str(okw)))
    for t in range(n_triples):
        inc, exc_ = rand_sel(rng)
        sel = CT.valid(inc, exc_)
        ids = None if rng.random() < 0.4 else sorted(rng.sample(range(n), rng.randint(0, n)))
        tys = None if rng.random() < 0.6 else sorted(rng.sample(types, rng.randint(0, len(types))))
        keep = {i for i in range(n) if (ids is None or i in ids) and (tys is None or doc.headers[i] in tys)}
        enc = rng.choice(list(kpx.ENC_BY_NAME))
        kw = {}
        if t % 7 == 3:
            # a selection the caller keeps in a variable and passes again and again (the library's own BEKERN_CATEGORIES among them):
            # the model works from the NAMES recorded when the object was made
            if not _POOL:
                _POOL.extend([(kp.BEKERN_CATEGORIES, tuple(sorted(c.name for c in kp.BEKERN_CATEGORIES))),
                              ({TC.CORE, TC.SIGNATURES, TC.BARLINES}, ('BARLINES', 'CORE', 'SIGNATURES')),
                              (set(TC), tuple(sorted(c.name for c in TC))),
                              ([TC.NOTE_REST, TC.BARLINES, TC.LYRICS], ('BARLINES', 'LYRICS', 'NOTE_REST'))])
            pobj, inc = _POOL[(t // 7) % len(_POOL)]
            sel = CT.valid(inc, exc_)
            kw['include'] = pobj
            ctx.mon('persistent_include_objects_used')
        elif inc is not None:
            kw['include'] = [set, list, tuple][t % 3](TC[c] for c in inc)
        if exc_ is not None:
            kw['exclude'] = [set, list, tuple][(t // 3) % 3](TC[c] for c in exc_)
        if ids is not None:
            kw['spine_ids'] = ids
        if tys is not None:
            kw['spine_types'] = tys
        if enc != 'kern' or rng.random() < 0.5:
            kw['encoding'] = kpx.ENC_BY_NAME[enc]
        c2 = dict(case, include=inc, exclude=exc_, spine_ids=ids, spine_types=tys, encoding=enc)
        ctx.ev()
        ctx.mon('combined_exports')
        ctx.mon(f'enc:{enc}')
        out, err = kpx.dumps(d, **kw)
        # an options object with the same content, reused for every combination and document of the run, is one more form of the same options
        kpx.shared_options_check(ctx, d, kw, out, err, c2)
        if needs_clef_error(ag, cx, sel, keep, enc):
            # a selected note without clef in force under an agnostic encoding: undefined by the property, counted only
            ctx.mon('clefless_agnostic_cases (undefined by the property)')
            continue
        if err is not None:
            key = 'combined-export-raises'
            if enc in ('akern', 'aekern') and 'PITCH' not in sel and 'ALTERATION' in sel and isinstance(err, IndexError):
                key = 'agnostic-without-pitch'
            ctx.violation(key, f'include={inc} exclude={exc_} ids={ids} types={tys} enc={enc}: {type(err).__name__}: {err}', c2)
            continue
        rows = expected_grid(ag, cx, sel, keep, enc, kp)
        msg = match(rows, kpx.grid(out))
        if msg is not None:
            key = 'composition-mismatch'
            ctx.violation(key, f'include={inc} exclude={exc_} ids={ids} types={tys} enc={enc}: {msg}', c2)
        elif (inc is not None or exc_ is not None) and 0 < len(keep) < n and enc != 'ekern' and out.strip():
            ctx.nontriv(cs, inc, exc_, tuple(ids) if ids is not None else None, tuple(tys) if tys is not None else None, enc)
        # composition with kernpy's OWN category + encoding transformation: the same export without the spine selection, its
        # columns deleted textually afterwards (which placeholder a filtered cell shows is kernpy's choice - the same choice
        # whether or not other columns are exported beside it).  Needs the headers and the spine operators in the export.
        if msg is None and (ids is not None or tys is not None) and {'HEADER', 'SPINE_OPERATION'} <= set(sel) and \
                set(doc.headers) <= set(kpx.T.HEADERS) and 'separator_in_text_cell' not in doc.tags:
            kw_f = {k_: v_ for k_, v_ in kw.items() if k_ not in ('spine_ids', 'spine_types')}
            full_f, err_f = kpx.dumps(d, **kw_f)
            if err_f is None:
                from ..model import humdrum as H
                proj = H.project(full_f, keep)
                ctx.mon('projections_of_the_real_filtered_export')
                if proj is not None and proj != out:
                    a_, b_ = proj.split('\n'), out.split('\n')
                    j = next((i_ for i_, (p_, q_) in enumerate(zip(a_, b_)) if p_ != q_), min(len(a_), len(b_)))
                    ctx.violation('selection-changes-filtered-cells', f'include={inc} exclude={exc_} ids={ids} types={tys} enc={enc}: line '
                                  f'{j + 1} is {b_[j] if j < len(b_) else None!r}, the same export without the spine selection has '
                                  f'{a_[j] if j < len(a_) else None!r} in these columns', c2)
    if len(ctx.samples) < 2 and len(x) < 400 and n >= 2:
        out, _ = kpx.dumps(d, spine_ids=[0], exclude={TC.DECORATION}, encoding=kp.Encoding.bEkern)
        ctx.sample({'case_seed': cs, 'text': x, 'options': 'spine_ids=[0], exclude={DECORATION}, encoding=bEkern', 'export': out})


def run(ctx: Ctx):
    kpx.enable_bystanders(ctx)
    ctx.rule = ('documents of the C01 generator x random option triples (spine ids/types subsets, include/exclude sets, six encodings) + the '
                'explicit-default variants. Oracle: the model applies category filter (closure from the documented tree, sub-part categories), '
                'encoding view (separator stripping, signifier removal note by note, staff translation under the clef in force) and column '
                'projection to the REAL default eKern export, suppression last; a placeholder may be "." or "*"; agnostic exports of a selection containing a note without clef '
                'in force are undefined by the property and only counted. Non-trivial = accepted combination with a category option, a proper '
                'spine selection and an encoding other than eKern; distinct by (document, options).')
    ctx.assumptions = ['single-option transformations as in C04-C06; the clef in force comes from the spine-path model']
    n_docs, n_tr = (55, 110) if ctx.tier == 'quick' else (300, 300)
    for cs in cases(ctx, 'c13', n_docs):
        one(ctx, cs, n_tr)
    ctx.floors = {'combined': ('combined_exports', 3000), 'defaults': ('explicit_default_cases', 300)}


def replay(ctx, w):
    case = w.get('case', w)
    one(ctx, case['case_seed'])
    print(case.get('text', ''))
