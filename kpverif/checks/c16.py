"""C16 - pitch spelling codec is lossless and side-effect free (full spelling grid, double export, snapshots)."""
from __future__ import annotations

from ..common import Ctx
from ..model import intervals as I

PID = 'C16'
SHARDS = {'quick': 1, 'thorough': 1}


def one(ctx, kp, letter, alt, octave):
    s = I.spell(letter, alt, octave)
    case = {'spelling': s}
    ctx.ev()
    ctx.mon('import_call')
    try:
        p = kp.HumdrumPitchImporter().import_pitch(s)
    except Exception as e:
        ctx.violation('import-raises', f'import_pitch({s!r}) raised {type(e).__name__}: {e}', case)
        return
    name, octv = p.name, p.octave
    g_letter = name[:1]
    g_alt = name.count('+') - name.count('-')
    if (g_letter, g_alt, octv) != (letter, alt, octave) or set(name[1:]) - {'+', '-'} or len(set(name[1:])) > 1:
        ctx.violation('import-wrong', f'import_pitch({s!r}) -> name={name!r} octave={octv}; expected letter={letter} '
                      f'alteration={alt} octave={octave}', case)
        return
    exp_obj = (p.name, p.octave)
    for cls_name in ('HumdrumPitchExporter',):
        exporter = getattr(kp, cls_name)()
        ctx.ev()
        ctx.mon('export_call')
        try:
            out1 = exporter.export_pitch(p)
        except Exception as e:
            ctx.violation('export-raises', f'export_pitch({s!r}) raised {type(e).__name__}: {e}', case)
            return
        after1 = (p.name, p.octave)
        if out1 != s:
            ctx.violation('export-wrong', f'export_pitch(import_pitch({s!r})) = {out1!r}', case)
        if after1 != exp_obj:
            ctx.violation('export-mutates-argument', f'export_pitch changed its argument: name/octave {exp_obj} -> {after1} '
                          f'(spelling {s!r})', case)
        ctx.ev()
        ctx.mon('second_export')
        try:
            out2 = kp.HumdrumPitchExporter().export_pitch(p)
        except Exception as e:
            ctx.violation('second-export-differs', f'second export of {s!r} raised {type(e).__name__}: {e}', case)
            return
        if out2 != out1:
            ctx.violation('second-export-differs', f'exporting {s!r} twice gives {out1!r} then {out2!r}', case)
    # the export direction: a pitch equal to the imported one, however it was obtained (constructed with the internal '+' or the
    # documented '#' spelling of sharps, renamed through the name setter, read by the American importer) is written the same way, twice
    sharp = exp_obj[0].replace('+', '#')
    routes = [('AgnosticPitch(internal name)', lambda: kp.AgnosticPitch(exp_obj[0], octave)),
              ('AgnosticPitch(name with #)', lambda: kp.AgnosticPitch(sharp, octave))]

    def renamed():
        r_ = kp.AgnosticPitch('C', octave)
        r_.name = sharp
        return r_
    routes.append(('name setter', renamed))

    def renamed_after_export():
        # a pitch object that was already written under another name and octave, then moved here through the public setters: it is
        # written as what it is now
        other = 'D-' if not exp_obj[0].startswith('D') else 'E+'
        r_ = kp.AgnosticPitch(other, octave + 1)
        kp.HumdrumPitchExporter().export_pitch(r_)
        r_.accidentals()
        r_.name = sharp
        r_.octave = octave
        return r_
    routes.append(('name and octave setters after an export', renamed_after_export))
    if 0 <= octave <= 9 and abs(alt) <= 2:
        routes.append(('AmericanPitchImporter', lambda: kp.AmericanPitchImporter().import_pitch(f'{sharp}{octave}')))
    for rname, make in routes:
        ctx.ev()
        ctx.mon('export_direction_cases')
        try:
            q_ = make()
        except Exception as e:  # noqa  (a route that does not accept this pitch is not the codec's business)
            ctx.mon(f'export_direction_route_refused:{rname}')
            continue
        if (q_.name, q_.octave) != exp_obj:
            ctx.mon(f'export_direction_route_gives_another_pitch:{rname}')
            continue
        try:
            o1_ = kp.HumdrumPitchExporter().export_pitch(q_)
            o2_ = kp.HumdrumPitchExporter().export_pitch(q_)
        except Exception as e:
            ctx.violation('export-wrong', f'{s!r} via {rname}: export raised {type(e).__name__}: {e}', dict(case, route=rname))
            continue
        if o1_ != s or o2_ != s or (q_.name, q_.octave) != exp_obj:
            ctx.violation('export-wrong', f'{s!r} via {rname}: the pitch {exp_obj} (equal to the imported one) is written {o1_!r} then {o2_!r}',
                          dict(case, route=rname))
    # American exporter must not alter the object either (read-only use of the same pitch object)
    q = kp.AgnosticPitch(exp_obj[0], exp_obj[1])
    ctx.ev()
    try:
        kp.AmericanPitchExporter().export_pitch(q)
        if (q.name, q.octave) != exp_obj:
            ctx.violation('export-mutates-argument', f'AmericanPitchExporter changed its argument {exp_obj} -> {(q.name, q.octave)}', case)
    except Exception:
        ctx.mon('american_export_raised')
    if alt != 0:
        ctx.nontriv(s)


JUNK = ['c#-', 'cd', 'h', 'c####', '', 'cC', 'c-#', 'r', '4c', 'c ', 'ccccccccccc', 'C#n', '#', 'x']


def shared_instances(ctx, kp, order_name, spellings, junk=False):
    """The same importer and exporter objects are reused for the whole grid (histories): the answer for a spelling must
    not depend on what the instance converted before."""
    imp = kp.HumdrumPitchImporter()
    exp = kp.HumdrumPitchExporter()
    kept = []
    for k_, (letter, alt, octave) in enumerate(spellings):
        if junk and k_ % 23 == 5:
            # a text that is not a spelling goes through the same instance first: whatever it answers (an exception or some pitch)
            # is counted, not judged - the valid spelling that follows must be unaffected by it
            j = JUNK[(k_ // 23) % len(JUNK)]
            try:
                imp.import_pitch(j)
                ctx.mon('junk_imports_returned')
            except Exception as e:  # noqa
                ctx.mon(f'junk_imports_raised:{type(e).__name__}')
        s = I.spell(letter, alt, octave)
        ctx.ev()
        ctx.mon('shared_instance_calls')
        try:
            p = imp.import_pitch(s)
            before = (p.name, p.octave)
            o1 = exp.export_pitch(p)
            o2 = exp.export_pitch(p)
        except Exception as e:
            ctx.violation('shared-instance', f'[{order_name}] {s!r}: {type(e).__name__}: {e}', {'spelling': s, 'order': order_name})
            continue
        g = (p.name[:1], p.name.count('+') - p.name.count('-'), p.octave)
        if g != (letter, alt, octave):
            ctx.violation('shared-instance', f'[{order_name}] a reused importer read {s!r} as {g}', {'spelling': s, 'order': order_name})
        if o1 != s or o2 != s or (p.name, p.octave) != before:
            ctx.violation('shared-instance', f'[{order_name}] a reused exporter wrote {s!r} as {o1!r} then {o2!r} (depends on what it '
                          f'exported before)', {'spelling': s, 'order': order_name})
        kept.append((s, p, before))
    # pitch objects handed out earlier must still be what they were (later imports/exports must not touch them)
    ids = set()
    for s, p, before in kept:
        ctx.ev()
        ctx.mon('kept_pitch_rechecks')
        ids.add(id(p))
        if (p.name, p.octave) != before:
            ctx.violation('shared-instance', f'[{order_name}] the pitch imported from {s!r} was {before} and is now {(p.name, p.octave)}: a '
                          f'later call on the same importer/exporter changed it', {'spelling': s, 'order': order_name})
            break
        try:
            o3 = exp.export_pitch(p)
        except Exception as e:
            o3 = f'{type(e).__name__}: {e}'
        if o3 != s:
            ctx.violation('shared-instance', f'[{order_name}] the pitch imported from {s!r} exports as {o3!r} after the other spellings '
                          f'went through the same importer/exporter', {'spelling': s, 'order': order_name})
            break
    if len(ids) != len(kept):
        ctx.violation('shared-instance', f'[{order_name}] {len(kept)} imports returned only {len(ids)} distinct pitch objects',
                      {'order': order_name})


def run(ctx: Ctx):
    import kernpy as kp
    ctx.rule = ('exhaustive grid: 7 letters x alterations -3..+3 x octaves -1..9 (539 Humdrum spellings, lower case for '
                'octave >= 4, upper case below): import gives (letter, alteration, octave); export returns the spelling; '
                'name/octave of the pitch object snapshotted before and after export; exported twice; the whole grid again through ONE reused '
                'importer and ONE reused exporter in grid, reverse and shuffled orders (history independence), also with texts that are not '
                'spellings (mixed accidentals, unknown letters, empty text ...) sent through the same importer in between. '
                'Non-trivial = spelling with an accidental; distinct by spelling.')
    ctx.assumptions = ['Humdrum spelling c=C4, cc=C5, C=C3, CC=C2']
    n = 0
    for letter in I.LETTERS:
        for alt in range(-3, 4):
            for octave in range(-1, 10):
                one(ctx, kp, letter, alt, octave)
                n += 1
                if n % 97 == 3:
                    ctx.sample({'spelling': I.spell(letter, alt, octave), 'letter': letter, 'alteration': alt, 'octave': octave})
    grid = [(l, a, o) for l in I.LETTERS for a in range(-3, 4) for o in range(-1, 10)]
    from ..common import rng_for
    shared_instances(ctx, kp, 'grid order', grid)
    shared_instances(ctx, kp, 'reverse order', list(reversed(grid)))
    for k in range(3 if ctx.tier == 'quick' else 12):
        g2 = grid[:]
        rng_for(ctx.seed, 'c16-order', k).shuffle(g2)
        shared_instances(ctx, kp, f'shuffled order {k}', g2)
        shared_instances(ctx, kp, f'shuffled order {k} with rejected texts in between', g2, junk=True)
    ctx.exhaustive = True
    ctx.extra['grid_cases'] = n
    ctx.floors = {'grid': ('import_call', 539), 'double export': ('second_export', 500)}
    try:
        from ..monitors.pitchshadow import run_shadow
        run_shadow(ctx, kp, owner='C16')
    except ImportError:
        pass


def replay(ctx, w):
    import kernpy as kp
    l, a, o = I.unspell(w['spelling'])
    one(ctx, kp, l, a, o)
