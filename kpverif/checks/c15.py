"""C15 - transposing a document moves pitches and nothing else (cell diff source vs result; round trip)."""
from __future__ import annotations

import random

from ..common import Ctx
from ..gen.workload import make_doc, cases
from ..model import intervals as I
from ..model import grid as GM
from .. import kpx

PID = 'C15'
SHARDS = {'quick': 1, 'thorough': 16}


def note_expect(note, name, up):
    """-> dict(model=<kern text per property or None if unspellable>, known_wrong=<text kernpy is known to produce or None>,
    natural_unspellable=bool)"""
    durtxt = ''.join(note.dur_parts())
    sig = ''.join(sorted(note.all_sigs()))
    letter = note.letters[0].upper()
    octave = note.octave()
    alt = note.alteration()
    el, ea, eo = I.transpose(letter, alt, octave, name, up)
    nl, na, no = I.transpose(letter, 0, octave, name, up)
    disp = note.acc[len(note.acc.rstrip('xXiIjZyY')):] if note.acc else ''
    core_acc = note.acc[:len(note.acc) - len(disp)] if note.acc else ''
    model = None
    if abs(ea) <= 2:
        if core_acc == 'n' and ea == 0:
            model = durtxt + I.spell(el, 0, eo) + 'n' + disp + sig
        else:
            model = durtxt + I.spell(el, ea, eo) + disp + sig
    known = None
    if abs(na) <= 3:   # kernpy's base-40 table also spells some triple flats
        known = durtxt + I.spell(nl, na, no) + note.acc + sig
    return {'model': model, 'known_wrong': known, 'natural_unspellable': abs(na) > 2, 'unspellable': abs(ea) > 2}


LONG = dict(measures=(12, 14), rows=(85, 95), max_spines=1, p_split=0.0, p_gcomment=0.0, p_fcomment=0.0, p_tandem=0.0, p_null_run=0.0, p_blank=0.0, p_bbox=0.0, p_midsig=0.0, empty_measures=0.0)


def one(ctx: Ctx, cs, n_pairs=80, long=False):
    from ..monitors import pitchshadow
    if long:
        # a score of more than 1000 lines (one spine): the size real scores have
        # (natural notes and intervals that keep every result spellable, so that a refusal cannot be blamed on an unspellable pitch)
        doc, pname = make_doc(cs, 'kern_core', allow_nodur=False, p_sig=0.9, allow_acc=False, **LONG)
        ctx.mon('long_documents')
    else:
        doc, pname = make_doc(cs, None, allow_nodur=False, p_sig=0.9)
    x = doc.text(0)
    ctx.ev()
    ctx.mon('documents')
    d, e, exc = kpx.loads(x)
    if exc is not None or e:
        ctx.mon('precondition_failed')
        return
    y0, err = kpx.dumps(d)
    E0, err2 = kpx.dumps(d, encoding=kpx.Enc.eKern)
    if err or err2:
        return
    ag = GM.annotate(doc, d, E0)
    if ag is None:
        ctx.mon('alignment_failed (C03 decides)')
        return
    g0 = kpx.grid(y0)
    ctx.cls(*sorted(doc.tags))
    rng = random.Random(cs ^ 0xC15)
    # a second, independent import of the same text: no transposition of `d` may show in it
    bystander, _, _ = kpx.loads(x)
    bystander_snap = kpx.snapshot(bystander) if bystander is not None else None
    names = list(I.INTERVALS)
    pairs = [(n, up) for n in names for up in (True, False)]
    if long:
        pairs = [('octave', True), ('P5', True), ('M2', False), ('P4', False)]
    elif n_pairs < len(pairs):
        pairs = rng.sample(pairs, n_pairs)
    has_acc = any(c.kind == 'note' and c.obj.acc for r in ag for c in r)
    has_chord = any(c.kind == 'chord' for r in ag for c in r)
    for k_, (name, up) in enumerate(pairs):
        direction = 'up' if up else 'down'
        case = {'case_seed': cs, 'text': x if len(x) < 20000 else x[:2000] + '...', 'interval': name, 'direction': direction, 'long': long}
        if k_ % 4 == 0:
            # a call that must be refused (unknown interval name / unknown direction) comes first: whatever it answers is only
            # counted - the transposition that follows must not be affected by it
            bad = [('P8', 'up'), ('M2', 'sideways'), ('', 'down'), ('m10', 'up'), ('octave ', 'up'), (None, 'up')][(k_ // 4 + cs) % 6]
            try:
                d.to_transposed(*bad)
                ctx.mon('odd_transposition_calls_returned')
            except Exception as ex0:  # noqa
                ctx.mon(f'odd_transposition_calls_raised:{type(ex0).__name__}')
        ctx.ev()
        ctx.mon('transpositions')
        # what may happen, from the model
        exps = {}
        core_unspellable = acc_class_raise = False
        for r in ag:
            for c in r:
                if c.kind == 'note':
                    ex = note_expect(c.obj, name, up)
                    exps[(c.line, c.col)] = ex
                    if ex['unspellable']:
                        core_unspellable = True
                    if ex['natural_unspellable'] and not ex['unspellable']:
                        acc_class_raise = True
        try:
            t = d.to_transposed(name, direction)
        except Exception as ex_:
            if core_unspellable:
                ctx.mon('raised_on_unspellable')
            elif acc_class_raise:
                ctx.violation('accidental-not-recombined', f'{name} {direction}: the call raised {type(ex_).__name__}: {ex_} although every '
                              f'resulting pitch is spellable (letters are transposed without their accidental)', case)
            else:
                ctx.violation('transpose-raises', f'{name} {direction}: {type(ex_).__name__}: {ex_} although every resulting pitch is spellable', case)
            d, _, _ = kpx.loads(x)
            continue
        yt, err = kpx.dumps(t)
        ys, _ = kpx.dumps(d)
        if err is not None:
            ctx.violation('result-export-raises', f'{name} {direction}: export of the result raised {type(err).__name__}: {err}', case)
            d, _, _ = kpx.loads(x)
            continue
        if bystander is not None and k_ % 5 == 0:
            ctx.mon('bystander_document_checks')
            if kpx.snapshot(bystander) != bystander_snap:
                ctx.violation('other-document-changed', f'{name} {direction}: transposing one Document changed ANOTHER Document imported '
                              f'separately from the same text (export now {"equal to" if kpx.dumps(bystander)[0] == y0 else "different from"} '
                              f'the original)', case)
                bystander, _, _ = kpx.loads(x)
                bystander_snap = kpx.snapshot(bystander)
        # source document after the call
        ctx.mon('source_checks')
        if ys != y0:
            if ys == yt:
                ctx.violation('source-document-mutated', f'{name} {direction}: after the call the SOURCE document exports the transposed score '
                              f'(clone() is shallow: nodes are shared)', case)
            else:
                ctx.violation('source-export-changed', f'{name} {direction}: the source export changed and is not the transposed score either', case)
        # cell diff
        gt = kpx.grid(yt)
        if len(gt) != len(g0) or any(len(a) != len(b) for a, b in zip(gt, g0)):
            ctx.violation('grid-changed', f'{name} {direction}: the result has a different grid ({len(gt)} lines vs {len(g0)})', case)
        else:
            for grow, srow, arow in zip(gt, g0, ag):
                for ot, os_, c in zip(grow, srow, arow):
                    ctx.mon('cells_compared')
                    if c.kind == 'note':
                        ex = exps[(c.line, c.col)]
                        if ex['model'] is None:
                            ctx.mon('unspellable_notes')
                            continue
                        if ot == ex['model']:
                            if not c.obj.acc:
                                ctx.mon('core_notes_agree')
                            continue
                        if c.obj.acc and (ot == ex['known_wrong'] or (ex['natural_unspellable'] and ot.endswith(c.obj.acc + ''.join(sorted(c.obj.all_sigs()))))):
                            ctx.violation('accidental-not-recombined', f'{name} {direction}: note {os_!r} became {ot!r}, interval arithmetic gives '
                                          f'{ex["model"]!r} (the letters are transposed, the written accidental is appended unchanged)', case)
                        else:
                            ctx.violation('note-pitch', f'{name} {direction}: note {os_!r} became {ot!r}, interval arithmetic gives {ex["model"]!r}', case)
                    elif c.kind == 'chord':
                        exp_notes = []
                        okc = True
                        u = c.obj.union_sigs()
                        for nt in c.obj.notes:
                            if nt.rest:
                                exp_notes.append(nt.canonical_kern(c.obj.union_for(nt)))
                                continue
                            import copy
                            n2 = copy.copy(nt)
                            n2.sigs, n2.fixed_pre = tuple(u), ''
                            exn = note_expect(n2, name, up)
                            if exn['model'] is None:
                                okc = False
                                break
                            exp_notes.append(exn['model'])
                        if not okc:
                            ctx.mon('unspellable_notes')
                            continue
                        exp_ch = ' '.join(exp_notes)
                        if ot == exp_ch:
                            continue
                        if ot == os_:
                            ctx.violation('chord-notes-not-transposed', f'{name} {direction}: chord {os_!r} is unchanged in the result, expected {exp_ch!r}', case)
                        else:
                            ctx.violation('note-pitch', f'{name} {direction}: chord {os_!r} became {ot!r}, expected {exp_ch!r}', case)
                    else:
                        if ot != os_:
                            ctx.violation('other-cell-changed', f'{name} {direction}: {c.kind} cell {os_!r} became {ot!r}', case)
        # transposing back restores the captured source export
        ctx.mon('round_trips')
        try:
            back = t.to_transposed(name, 'down' if up else 'up')
            yb, _ = kpx.dumps(back)
            if yb != y0:
                ctx.violation('round-trip', f'{name} {direction} then back: the export differs from the source export', case)
        except Exception as ex_:
            ctx.violation('round-trip', f'{name} {direction} then back raised {type(ex_).__name__}: {ex_}', case)
        if name not in ('P1',) and any(c.kind == 'note' and not c.obj.acc for r in ag for c in r):
            ctx.nontriv(cs, name, direction)
        # the source shares its nodes with the result (known finding): restore a pristine source for the next pair
        ys2, _ = kpx.dumps(d)
        if ys2 != y0:
            d, _, _ = kpx.loads(x)
    log = pitchshadow.drain()
    ctx.mon('shadow_transpose_calls', log['transpose_calls'])
    for p in log['arith_problems'][:2]:
        ctx.mon('shadow_arith_disagreements (owned by C09)')
    if len(ctx.samples) < 2 and len(x) < 350:
        d2, _, _ = kpx.loads(x)
        ctx.sample({'case_seed': cs, 'text': x, 'interval': 'M2 up', 'result': kpx.dumps(d2.to_transposed('M2', 'up'))[0]})


def run(ctx: Ctx):
    from ..monitors import pitchshadow
    pitchshadow.install()
    ctx.rule = ('documents of the C01 generator x (quick: 80 sampled of the / thorough: all) 40 intervals x 2 directions. Source export captured '
                'BEFORE the call; result compared cell by cell: non-note cells identical, each single note = duration marks + model pitch '
                '(letter, accidental, octave by interval arithmetic) + signifiers; chords per note; the call may raise only if the model says some '
                'result needs > 2 accidentals; source export re-taken after the call; transposing back must restore the captured export. Claimed '
                'core: single notes without explicit accidental; explored and tracked: notes with accidentals, chord notes, the source document '
                'after the call. Non-trivial = (document with a core note, interval != P1, direction); distinct by that triple.')
    ctx.assumptions = ['interval arithmetic of model/intervals.py (same model as C09)']
    n_docs, n_pairs = (28, 80) if ctx.tier == 'quick' else (150, 80)
    for cs in cases(ctx, 'c15', n_docs):
        one(ctx, cs, n_pairs)
    for cs in cases(ctx, 'c15-long', 1 if ctx.tier == 'quick' else 2):
        one(ctx, cs, 4, long=True)
    ctx.floors = {'transpositions': ('transpositions', 1000), 'core notes': ('core_notes_agree', 2000), 'round trips': ('round_trips', 800)}
    pitchshadow.uninstall()


def replay(ctx, w):
    from ..monitors import pitchshadow
    pitchshadow.install()
    case = w.get('case', w)
    one(ctx, case['case_seed'], long=case.get('long', False))
    print(case.get('text', ''))
    pitchshadow.uninstall()
