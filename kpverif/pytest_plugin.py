"""Calibration plugin (not a registered check): runs the repository's own pinned tests with the contracts and shadows
loaded.  A monitor that fires there is either too strict or a defect the tests do not assert.
usage:  cd /repo && PYTHONPATH=/verif:/verif/.deps /venv/bin/python -m pytest -q -p no:cacheprovider -p kpverif.pytest_plugin ..."""
from __future__ import annotations


def pytest_configure(config):
    from .monitors import treecontract, exportcontract, catshadow, pitchshadow, consumption
    treecontract.install()
    exportcontract.install()
    catshadow.install()
    pitchshadow.install()
    consumption.install()


def pytest_terminal_summary(terminalreporter):
    from .monitors import treecontract, exportcontract, catshadow, pitchshadow, consumption
    n, probs = treecontract.drain()
    tr = terminalreporter
    tr.write_line(f'[kpverif] add_node contract: {n} evaluations, {len(probs)} problems {probs[:3]}')
    log = exportcontract.drain()
    tr.write_line(f'[kpverif] NoteRestToken.export contract: {log["evaluations"]} evaluations, {len(log["problems"])} problems '
                  f'{log["problems"][:3]}; decorations seen {log["dedup_seen"]}, duplicates dropped {log["dedup_dropped"]}')
    tr.write_line(f'[kpverif] category shadow: {catshadow.LOG["calls"]} calls, {len(catshadow.LOG["problems"])} problems '
                  f'{catshadow.LOG["problems"][:3]}')
    pl = pitchshadow.drain()
    tr.write_line(f'[kpverif] pitch shadow: transpose {pl["transpose_calls"]}, export_pitch contract {pl["export_pitch_calls"]}, '
                  f'arith problems {pl["arith_problems"][:3]}, purity problems {pl["purity_problems"][:3]}')
    tr.write_line(f'[kpverif] consumption monitor: {consumption.COUNT}')
