"""Environment axis: the same imports and exports in child interpreters started under other process environments.

What kernpy returns for a text is a function of the text and the arguments; it must not depend on the interpreter's hash seed
(order in which sets of categories / headers are walked), on warnings being turned into errors, on the locale's default text
encoding, on the current directory or on assert statements being stripped.  The parent computes a digest of every text in-process
(the results themselves are judged by the check's own oracle) and each child must reproduce it exactly.

The child talks JSON through files in the scratch directory; one subprocess per variant and batch (never multiprocessing.Pool),
with a wall-clock watchdog whose firing is inconclusive, not a violation.
"""
from __future__ import annotations

import json
import os
import subprocess
import sys

from .common import SCRATCH_DIR, REPO, ROOT

CHILD = r'''
import json, os, sys
sys.path.insert(0, sys.argv[2])
import kernpy as kp
job = json.load(open(sys.argv[1], encoding="utf-8"))
def digest(doc, errs):
    out = {"errors": [[e.line, e.encoding] for e in errs]}
    out["tokens"] = [[type(t).__name__, t.encoding, t.category.name] for t in doc.get_all_tokens()]
    out["measures"] = list(doc.measure_start_tree_stages)
    types = kp.spine_types(doc, [n.token.encoding for n in doc.get_header_stage()])
    for name, kw in (("kern", {}), ("ekern", {"encoding": kp.Encoding.eKern}), ("all_types", {"spine_types": sorted(set(types))}),
                     ("core_bekern", {"include": {kp.TokenCategory.CORE, kp.TokenCategory.SIGNATURES}, "exclude": [kp.TokenCategory.DECORATION],
                                      "encoding": kp.Encoding.bEkern})):
        try:
            out[name] = kp.dumps(doc, **kw)
        except Exception as e:
            out[name] = "RAISED " + type(e).__name__
    return out
res = []
for item in job["items"]:
    r = {}
    try:
        d, e = kp.loads(item["text"])
        r["loads"] = digest(d, e)
    except Exception as ex:
        r["loads"] = "RAISED " + type(ex).__name__ + ": " + str(ex)[:100]
    if item.get("fragments"):
        try:
            cd, idx = kp.concat(item["fragments"])
            r["concat"] = {"indexes": [list(p) for p in idx], "kern": kp.dumps(cd)}
        except Exception as ex:
            r["concat"] = "RAISED " + type(ex).__name__ + ": " + str(ex)[:100]
    if item.get("path"):
        try:
            d, e = kp.load(item["path"])
            r["load"] = digest(d, e)
        except Exception as ex:
            r["load"] = "RAISED " + type(ex).__name__ + ": " + str(ex)[:100]
    res.append(r)
json.dump({"results": res, "hashseed": os.environ.get("PYTHONHASHSEED"), "cwd": os.getcwd(),
           "encoding": __import__("locale").getpreferredencoding(False), "debug": __debug__}, open(sys.argv[3], "w", encoding="utf-8"))
'''

VARIANTS = [
    # name, interpreter flags, environment changes, cwd
    ('other-hash-seed', [], {'PYTHONHASHSEED': '4242'}, None),
    ('third-hash-seed', [], {'PYTHONHASHSEED': '77'}, None),
    ('warnings-as-errors', ['-W', 'error'], {}, None),
    ('ascii-default-encoding', [], {'PYTHONUTF8': '0', 'LC_ALL': 'C', 'LANG': 'C', 'PYTHONCOERCECLOCALE': '0'}, None),
    ('asserts-stripped-other-cwd', ['-O'], {}, '/'),
]


def _digest_inprocess(text, path):
    """The same digest in the parent, through the same code as the child (executed in a private namespace)."""
    raise NotImplementedError


def run_variants(ctx, texts, key='environment-dependent', with_files=True, variants=None, timeout=900, fragments=None,
                 load_equals_loads_key=None):
    """texts: list of str.  Spawns one reference child (the parent's own environment) and one child per variant; every variant must
    reproduce the reference digest of every text (imports from a string and, with_files, from a UTF-8 file)."""
    SCRATCH_DIR.mkdir(exist_ok=True)
    base = SCRATCH_DIR / f'env-{os.getpid()}-{ctx.pid}'
    base.mkdir(exist_ok=True)
    items = []
    for i, t in enumerate(texts):
        it = {'text': t}
        if fragments and i < len(fragments) and fragments[i]:
            it['fragments'] = fragments[i]      # the same text cut into fragments: kp.concat in the child too
        if with_files:
            p = base / f't{i}.krn'
            with open(p, 'w', encoding='utf-8', newline='') as fh:
                fh.write(t)
            it['path'] = str(p)
        items.append(it)
    job = base / 'job.json'
    job.write_text(json.dumps({'items': items}, ensure_ascii=False), encoding='utf-8')
    child = base / 'child.py'
    child.write_text(CHILD, encoding='utf-8')

    def spawn(name, flags, envd, cwd):
        out = base / f'out-{name}.json'
        env = dict(os.environ)
        env.pop('PYTHONPATH', None)
        env.pop('PYTHONWARNINGS', None)
        env.update(envd)
        env['PYTHONDONTWRITEBYTECODE'] = '1'
        try:
            r = subprocess.run([sys.executable] + flags + [str(child), str(job), str(REPO), str(out)], capture_output=True, text=True,
                               env=env, timeout=timeout, cwd=cwd or str(ROOT))
        except subprocess.TimeoutExpired:
            return None, f'{name}: watchdog of {timeout}s'
        if r.returncode != 0 or not out.exists():
            return None, f'{name}: exit {r.returncode}: {r.stderr[-400:]}'
        try:
            return json.loads(out.read_text(encoding='utf-8')), None
        except Exception as e:  # noqa
            return None, f'{name}: unreadable output: {e}'

    try:
        ref, err = spawn('reference', [], {}, None)
        if ref is None:
            ctx.inconc(f'environment reference child failed: {err}')
            return
        ctx.mon('environment_reference_digests', len(ref['results']))
        if load_equals_loads_key and with_files:
            # in the reference child every text was imported from the string FIRST and from its file afterwards, in a process that had
            # imported nothing before: the two digests are the same
            for i, r_ in enumerate(ref['results']):
                ctx.ev()
                ctx.mon('fresh_process_load_vs_loads')
                if r_.get('loads') != r_.get('load'):
                    a_, b_ = r_.get('loads'), r_.get('load')
                    what = (f'loads: {str(a_)[:90]} / load: {str(b_)[:90]}' if not (isinstance(a_, dict) and isinstance(b_, dict))
                            else 'differ in ' + str([k for k in a_ if a_.get(k) != b_.get(k)][:5]))
                    ctx.violation(load_equals_loads_key, f'in a fresh process, text #{i} ({len(texts[i])} characters) imported from the string and '
                                  f'then from its file: {what}', {'text_head': texts[i][:300], 'length': len(texts[i])})
        for name, flags, envd, cwd in (variants or VARIANTS):
            got, err = spawn(name, flags, envd, cwd)
            ctx.ev()
            ctx.mon(f'environment_variant:{name}')
            if got is None:
                if 'Traceback (most recent call last)' in (err or '') and 'watchdog' not in err:
                    # a Python exception outside the per-text try blocks: kernpy could not be imported or run at all under this environment
                    ctx.violation(key, f'[{name}] the child interpreter failed: {err}', {'variant': name, 'texts': texts[:1]})
                else:
                    ctx.inconc(f'environment child {name} did not finish: {err}')
                continue
            ctx.mon(f'environment_seen:{name}:hashseed={got.get("hashseed")} encoding={got.get("encoding")} debug={got.get("debug")}')
            for i, (a, b) in enumerate(zip(ref['results'], got['results'])):
                ctx.mon('environment_digests_compared')
                if a == b:
                    continue
                what = []
                for k in sorted(set(a) | set(b)):
                    if a.get(k) != b.get(k):
                        if isinstance(a.get(k), dict) and isinstance(b.get(k), dict):
                            what += [f'{k}.{kk}' for kk in sorted(set(a[k]) | set(b[k])) if a[k].get(kk) != b[k].get(kk)]
                        else:
                            what.append(f'{k}: {str(b.get(k))[:120]}')
                ctx.violation(key, f'[{name}] text #{i}: result differs from the same call in the reference environment in {what[:5]}',
                              {'variant': name, 'text': texts[i], 'differs_in': what[:8]})
    finally:
        import shutil
        shutil.rmtree(base, ignore_errors=True)
