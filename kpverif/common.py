"""Shared run context: counters, verdicts, known findings, evidence and replay files.

Every check builds one Ctx, feeds it oracle evaluations, and calls finish().
Verdicts are three-valued (see DESIGN.md 2.4):
    exit 0  held on what was observed (KNOWN-FINDING lines allowed)
    exit 1  at least one VIOLATION not listed in KNOWN_FINDINGS.txt
    exit 2  inconclusive (a deciding monitor saw nothing, floors not met, watchdog, wrong import)
"""
from __future__ import annotations

import hashlib
import json
import os
import random
import subprocess
import sys
import time
import traceback
from collections import Counter
from pathlib import Path

ROOT = Path(__file__).resolve().parent.parent
EVIDENCE_DIR = ROOT / 'evidence'
REPLAY_DIR = ROOT / 'replays'
SCRATCH_DIR = ROOT / '.scratch'
KNOWN_FINDINGS = ROOT / 'KNOWN_FINDINGS.txt'
# KPVERIF_REPO: evaluate the checks against another source tree (seeded-change trials only; the registered
# commands never set it).  Evidence and replays of such runs go to .scratch so that committed evidence stays /repo's.
REPO = Path(os.environ.get('KPVERIF_REPO', '/repo'))
if 'KPVERIF_REPO' in os.environ:
    _tag = os.environ.get('KPVERIF_TAG', 'alt')
    EVIDENCE_DIR = SCRATCH_DIR / f'evidence-{_tag}'
    REPLAY_DIR = SCRATCH_DIR / f'replays-{_tag}'


def h(*parts) -> str:
    m = hashlib.sha1()
    for p in parts:
        m.update(repr(p).encode('utf-8', 'surrogatepass'))
        m.update(b'\0')
    return m.hexdigest()[:16]


def subseed(seed: int, *parts) -> int:
    return int(hashlib.sha1(repr((seed,) + parts).encode()).hexdigest()[:12], 16)


def rng_for(seed: int, *parts) -> random.Random:
    return random.Random(subseed(seed, *parts))


def load_known_findings():
    """-> dict property -> {key: text} for 'finding:' lines only ('fixed:' lines suppress nothing)."""
    out = {}
    if not KNOWN_FINDINGS.exists():
        return out
    for line in KNOWN_FINDINGS.read_text(encoding='utf-8').splitlines():
        line = line.strip()
        if not line.startswith('finding:'):
            continue
        fields = line[len('finding:'):].strip().split(None, 2)
        prop = key = None
        rest = ''
        for f in fields[:2]:
            if f.startswith('property='):
                prop = f[len('property='):]
            elif f.startswith('key='):
                key = f[len('key='):]
        if len(fields) > 2:
            rest = fields[2]
        if prop and key:
            out.setdefault(prop, {})[key] = rest
    return out


def repo_state():
    try:
        head = subprocess.run(['git', '-C', str(REPO), 'rev-parse', 'HEAD'], capture_output=True, text=True,
                              timeout=20).stdout.strip()
        dirty = subprocess.run(['git', '-C', str(REPO), 'status', '--porcelain', '--untracked-files=no'],
                               capture_output=True, text=True, timeout=20).stdout.strip() != ''
    except Exception:
        head, dirty = 'unknown', True
    return head, dirty


class Ctx:
    def __init__(self, pid: str, tier: str, seed: int, *, shard=None, replay=False):
        self.pid = pid
        self.tier = tier
        self.seed = seed
        self.shard = shard  # (i, n) or None
        self.replay = replay
        self.t0 = time.time()
        self.evaluations = 0
        self.nontrivial = set()
        self.samples = []
        self.monitor_events = Counter()
        self.classes = Counter()
        self.reach = Counter()
        self.violations = {}  # key -> {'what', 'witness', 'count'}
        self.known_seen = Counter()
        self.known_examples = {}
        self.inconclusive = []
        self.extra = {}
        self.exhaustive = None
        self.rule = ''
        self.assumptions = []
        self.level = 'exploration'
        self.floors = {}  # name -> (counter name, minimum)
        self.known = load_known_findings().get(pid, {})
        self.max_samples = 6
        self.max_witness = 5

    # ----------------------------------------------------------------------------------------------
    def ev(self, n=1):
        self.evaluations += n

    def mon(self, name, n=1):
        self.monitor_events[name] += n

    def cls(self, *names):
        for n in names:
            self.classes[n] += 1

    def nontriv(self, *key_parts):
        self.nontrivial.add(h(*key_parts))

    def sample(self, obj, force=False):
        if force or len(self.samples) < self.max_samples:
            self.samples.append(obj)

    def inconc(self, reason):
        if reason not in self.inconclusive:
            self.inconclusive.append(reason)

    def violation(self, key: str, what: str, witness: dict):
        """key: mechanism key.  A key listed as a finding for this property is reported as KNOWN-FINDING."""
        if key in self.known:
            self.known_seen[key] += 1
            if key not in self.known_examples:
                self.known_examples[key] = what
            return False
        v = self.violations.get(key)
        if v is None:
            self.violations[key] = {'what': what, 'witnesses': [witness], 'count': 1, 'hashseed': os.environ.get('PYTHONHASHSEED')}
        else:
            v['count'] += 1
            if len(v['witnesses']) < self.max_witness:
                v['witnesses'].append(witness)
        return True

    def guard(self, key, case, fn, *a, **kw):
        """Run fn; an unexpected exception *of the harness or kernpy* becomes a violation with key."""
        try:
            return fn(*a, **kw)
        except Exception as e:  # noqa
            self.violation(key, f'unexpected {type(e).__name__}: {e}',
                           {'case': case, 'traceback': traceback.format_exc()[-1500:]})
            return None

    # ----------------------------------------------------------------------------------------------
    def to_partial(self):
        try:
            from . import kpx
            for r_, n_ in kpx.route_counts.items():
                self.monitor_events['import_route:' + r_] = n_
        except Exception:  # noqa
            pass
        return {
            'evaluations': self.evaluations,
            'nontrivial': sorted(self.nontrivial),
            'samples': self.samples,
            'monitor_events': dict(self.monitor_events),
            'classes': dict(self.classes),
            'reach': dict(self.reach),
            'violations': self.violations,
            'known_seen': dict(self.known_seen),
            'known_examples': self.known_examples,
            'inconclusive': self.inconclusive,
            'extra': self.extra,
            'exhaustive': self.exhaustive,
            'rule': self.rule,
            'assumptions': self.assumptions,
        }

    def merge_partial(self, p):
        self.evaluations += p['evaluations']
        self.nontrivial.update(p['nontrivial'])
        for s in p['samples']:
            if len(self.samples) < self.max_samples:
                self.samples.append(s)
        self.monitor_events.update(p['monitor_events'])
        self.classes.update(p['classes'])
        self.reach.update(p['reach'])
        for k, v in p['violations'].items():
            mine = self.violations.get(k)
            if mine is None:
                self.violations[k] = v
            else:
                mine['count'] += v['count']
                mine['witnesses'] = (mine['witnesses'] + v['witnesses'])[:self.max_witness]
        self.known_seen.update(p['known_seen'])
        for k, v in p['known_examples'].items():
            self.known_examples.setdefault(k, v)
        for r in p['inconclusive']:
            self.inconc(r)
        for k, v in p['extra'].items():
            if isinstance(v, (int, float)) and isinstance(self.extra.get(k), (int, float)):
                self.extra[k] += v
            elif isinstance(v, dict) and isinstance(self.extra.get(k), dict):
                for kk, vv in v.items():
                    if isinstance(vv, (int, float)) and isinstance(self.extra[k].get(kk), (int, float)):
                        self.extra[k][kk] += vv
                    else:
                        self.extra[k].setdefault(kk, vv)
            else:
                self.extra.setdefault(k, v)
        if p['exhaustive'] is False:
            self.exhaustive = False
        elif p['exhaustive'] and self.exhaustive is None:
            self.exhaustive = True
        if p['rule'] and not self.rule:
            self.rule = p['rule']
        for a in p['assumptions']:
            if a not in self.assumptions:
                self.assumptions.append(a)

    # ----------------------------------------------------------------------------------------------
    def check_floors(self):
        for name, (counter, minimum) in self.floors.items():
            got = self.monitor_events.get(counter, 0)
            if got < minimum:
                self.inconc(f'floor {name}: monitor {counter} observed {got} < {minimum}')

    def finish(self) -> int:
        """Write evidence, replay files, print verdict lines, return exit code."""
        self.check_floors()
        if self.evaluations == 0:
            self.inconc('no oracle evaluation was performed')
        wall = time.time() - self.t0
        head, dirty = repo_state()
        REPLAY_DIR.mkdir(parents=True, exist_ok=True)
        lines = []
        viol_summ = []
        for key, v in sorted(self.violations.items()):
            path = REPLAY_DIR / self.pid / f'{key}-{h(v["witnesses"][0])}.json'
            path.parent.mkdir(parents=True, exist_ok=True)
            path.write_text(json.dumps({'property': self.pid, 'key': key, 'what': v['what'], 'count': v['count'],
                                        'witnesses': v['witnesses'], 'seed': self.seed, 'tier': self.tier,
                                        'hashseed': v.get('hashseed', os.environ.get('PYTHONHASHSEED'))},
                                       indent=1, ensure_ascii=False, default=str), encoding='utf-8')
            lines.append(f'VIOLATION property={self.pid} replay={path} key={key} count={v["count"]} :: {v["what"][:300]}')
            viol_summ.append({'key': key, 'count': v['count'], 'what': v['what'][:400], 'replay': str(path)})
        for key, n in sorted(self.known_seen.items()):
            lines.append(f'KNOWN-FINDING: property={self.pid} key={key} seen={n} :: {self.known.get(key, "")[:200]}'
                         f' :: e.g. {self.known_examples.get(key, "")[:200]}')
        status = 'held'
        code = 0
        if self.violations:
            status, code = 'violated', 1
        elif self.inconclusive:
            status, code = 'inconclusive', 2
            for r in self.inconclusive:
                lines.append(f'INCONCLUSIVE property={self.pid} reason={r}')
        distinct = len(self.nontrivial)
        cov = {
            'evaluations': int(self.evaluations),
            'distinct_nontrivial': int(distinct),
            'rule': self.rule,
            'samples': self.samples[:self.max_samples] or ['(none)'],
            'monitor_events': dict(sorted(self.monitor_events.items())),
            'classes_seen': dict(sorted(self.classes.items())),
            'reach': dict(sorted(self.reach.items())),
            'known_findings_seen': dict(self.known_seen),
            'violation_keys': viol_summ,
            'inconclusive_reasons': self.inconclusive,
            'verdict': status,
            'repo_head': head,
            'repo_dirty': dirty,
            'pythonhashseed': os.environ.get('PYTHONHASHSEED'),
        }
        if self.exhaustive is not None:
            cov['exhaustive'] = bool(self.exhaustive)
        cov.update(self.extra)
        evidence = {
            'property_id': self.pid,
            'tier': self.tier,
            'seed': int(self.seed),
            'level': self.level,
            'coverage': cov,
            'assumptions': self.assumptions,
            'wall_s': round(wall, 2),
            'violations': sum(v['count'] for v in self.violations.values()),
        }
        if not self.replay and self.shard is None:
            EVIDENCE_DIR.mkdir(parents=True, exist_ok=True)
            (EVIDENCE_DIR / f'{self.pid}.json').write_text(
                json.dumps(evidence, indent=1, ensure_ascii=False, default=str) + '\n', encoding='utf-8')
        for ln in lines:
            print(ln)
        print(f'[{self.pid}] tier={self.tier} seed={self.seed} verdict={status} evaluations={self.evaluations} '
              f'distinct_nontrivial={distinct} known={dict(self.known_seen)} wall={wall:.1f}s')
        sys.stdout.flush()
        return code


def assert_repo_import(ctx: Ctx):
    import kernpy
    p = Path(kernpy.__file__).resolve()
    if not str(p).startswith(str(REPO) + os.sep):
        ctx.inconc(f'kernpy imported from {p}, not from {REPO}')
    return p


class Watchdog(Exception):
    pass
