"""Document workloads shared by the document-level checks: deterministic case seeds, profile rotation."""
from __future__ import annotations

import random

from ..common import subseed
from .doc import gen_doc, profile

ROTATION = ['default', 'splitty', 'texty', 'kern_only', 'default', 'kern_core', 'simple', 'splitty',
            'no_kern', 'many_spines', 'texty', 'long_tokens', 'kern_only', 'wide_split', 'tiny', 'default',
            'splitty', 'default', 'texty', 'kern_core', 'simple', 'default', 'kern_only', 'many_measures']


def make_doc(case_seed: int, pname: str = None, **over):
    rng = random.Random(case_seed)
    if pname is None:
        pname = ROTATION[case_seed % len(ROTATION)]
    return gen_doc(rng, profile(pname, **over)), pname


def cases(ctx, salt, n):
    shard_i = ctx.shard[0] if ctx.shard else 0
    for i in range(n):
        yield subseed(ctx.seed, salt, shard_i, i)
