"""Abstract Humdrum documents ("C01's grammar") and their rendering.

The generator knows what every cell means (kind, abstract note, spine) independently of kernpy's parser, so the
oracles can read expectations from the abstract document.  Two renderings (A: hostile, B: another equivalent
spelling) of every note support the canonicity claim of C01.
"""
from __future__ import annotations

from dataclasses import dataclass, field
from typing import List, Optional

from . import notes as N
from ..model import spinepaths as SP

KERN_LIKE = ('**kern', '**root')
TEXT_TYPES = ('**text', '**dynam', '**dyn', '**harm', '**mxhm', '**fing')
ALL_TYPES = ('**kern',) * 5 + ('**text', '**dynam', '**dyn', '**harm', '**mxhm', '**fing', '**root')

CLEFS = ['*clefG2', '*clefF4', '*clefC3', '*clefC4', '*clefC1', '*clefC2', '*clefF3', '*clefGv2', '*clefG^2',
         '*clefGvv2', '*clefFv4', '*clefG^^2', '*clefG2', '*clefF4']
KEYSIGS = ['*k[]', '*k[f#]', '*k[f#c#]', '*k[b-]', '*k[b-e-a-]', '*k[f#c#g#d#]', '*k[b-e-]', '*kcancel', '*k[f#]X',
           '*k[f#c#g#d#a#e#b#]', '*k[b-e-a-d-g-c-f-]']
METERS = ['*M4/4', '*M3/4', '*M6/8', '*M2/2', '*M12/8', '*M3+2/8', '*M2/4', '*M5/4', '*M3+2+2/8', '*M4/2',
          '*M12/16', '*M9/16', '*M2/1', '*M11/8', '*M10/4', '*M24/16']
METERSYMS = ['*met(c)', '*met(c|)', '*met(O)', '*met(C|)', '*met(O.)', '*met(C3/2)', '*M(c)', '*M(c|)', '*M(C|)', '*M(O)']
TANDEMS = ['*MM120', '*MM60', '*tb8', '*staff1', '*staff2', '*staff1/2', '*I"Piano', '*Ivioln', '*>A', '*>[A,B,A]',
           '*>norep[A,B]', '*>1st ending', '*ped', '*Xped', '*8va', '*X8va', '*8ba', '*lh', '*rh', '*cue', '*Xcue',
           '*C:', '*a:', '*F#:', '*b-:', '*C:dor', '*Trd1c2', '*ITrd-1c-2', '*part1', '*group2', '*rscale:1/2',
           '*rscale:2', '*xywh-1:10,20,30,40', '*above', '*below', '*below:2', '*centered', '*tuplet', '*Xtuplet',
           '*tremolo', '*Xtremolo', '*tstart', '*tend', '*solo', '*accomp', '*strophe', '*S/sic', '*S/ossia',
           '*S/fin', '*S-', '*ela', '*mI"Title', '*MM120.5', '*?:', '*C/a:', '*I"Flauto 1',
           # numbers at the edges: zero, several digits, leading zeros, fractions (all kept as written)
           '*staff10', '*staff007', '*staff0', '*MM0', '*MM1000.25', '*tb128', '*tb0', '*part10', '*group12', '*rscale:3/2',
           '*rscale:10', '*Trd10c12', '*xywh-0:0,0,0,0', '*xywh-99999:1,2,3,99999999', '*staff+3', '*staff12/13']
BAR_TYPES = ['', '', '', '', '||', '|!', '|!:', '|:', '!|:', ':|!', ':|!|:', ':||:', ':!:', ':!!:', '=']

WORDS = ['la', 'Ky-', '-ri-', 'e', '_', 'A-', 'men', 'do', 're', 'mi', 'Gott', 'lieb', 'f', 'p', 'mf', 'ff', 'cresc',
         '<', '>', '(', ')', '[', ']', 'C', 'Am', 'G7', 'I', 'V7', 'iv', 'viio', '1', '2', '3', '4 5', 'n', 'x', '1-2',
         'sol', 'al-', 'le-', 'lu-', 'ia', 'pp', 'sfz', 'dim', 'IV', 'ii6', 'T', 'ped', 'a', 'c', 'cc', '4c', 'r',
         'rit.', 'rit', 'rall.', 'rinf.', 'ring', 'river', 'res-', 'ri-', '-re', 'rf', 'poco', 'più', 'ten.', 'stacc.', 'xywh',
         # words spelled only with the characters of the null tokens: they are words (a line that holds one is not an empty line)
         '...', '..', '…']
HOSTILE_WORDS = ['"quoted"', "it's", 'a,b', 'two words', 'naïve', 'señor', 'größe', '日本', 'a"b', '""', '"', 'c\\d',
                 "''", 'x;y', ' lead', 'trail ', 'q"', '"open', 'close"', 'a""b', ',', "'", '\\', 'ñ', 'é', '€uro',
                 'tab?', 'a  b', '"a"b"', 'Ωmega', 'x|y', '4c|', '#', '-', '--', '~', '{x}', '"a b" c',
                 # decomposed accents and singleton code points: text is kept code point for code point, never normalised
                 'cafe\u0301', 'man\u0303ana', '\u212bngstro\u0308m', '\u2126', 'fac\u0327ade', '\ufb01n',
                 # characters that str.splitlines() treats as line boundaries but that are not Humdrum record separators
                 'la\u2028li', 'a\x0cb', 'x\x85y', 'p\u2029q', 'v\x0bt', 'f\x1cs', '\x1e', 'nb\xa0sp',
                 # an invisible character in front of a word or of something that looks like an operator: part of the cell, in every
                 # column and on every line (a byte-order mark belongs to the file, not to a cell)
                 '\ufeffla', '\ufeff*^', '\u200b*-', '\ufeff', '\ufeff=1', '\u2060*v', '\ufeff.']
NULL_LIKE_WORDS = ['...', '..', '…', '....']
SEPARATOR_WORDS = ['col·le', 'me@example.org', '@', '·', 'a@b·c']
# characters str.splitlines() breaks at, inside a word (never a Humdrum record separator)
BOUNDARY_WORDS = ['la\u2028li', 'a\x0cb', 'x\x85y', 'p\u2029q', 'v\x0bt', 'f\x1cs', 'g\x1dh', 'k\x1el']


@dataclass
class Cell:
    kind: str                 # header op nullinterp clef keysig meter metersym tandem bar note rest chord null text fcomment
    text: str
    alt: Optional[str] = None     # second rendering (notes/chords only)
    obj: object = None            # Note / Chord / bar dict
    spine: int = -1

    def render(self, variant=0):
        return self.alt if (variant == 1 and self.alt is not None) else self.text


@dataclass
class Line:
    kind: str                 # g b header interp bar data fcomment op
    cells: List[Cell] = field(default_factory=list)
    text: str = ''            # for 'g'

    def render(self, variant=0):
        if self.kind == 'g':
            return self.text
        if self.kind == 'b':
            return ''
        return '\t'.join(c.render(variant) for c in self.cells)


@dataclass
class Profile:
    types: tuple = ALL_TYPES
    min_spines: int = 1
    max_spines: int = 4
    first_kern: bool = True              # at least one **kern spine
    measures: tuple = (1, 5)
    rows: tuple = (1, 4)                 # data rows per measure
    p_split: float = 0.12
    p_join: float = 0.5                  # per row while split
    p_early_term: float = 0.02
    p_chord_display_mix: float = 0.0     # explored class (C01): chord with an accidental on one note and X / i / j / Z on another
    p_spine_end: float = 0.0             # per operator opportunity: a whole spine (not a sub-spine) ends with *- while the others go on
    p_combo_ops: float = 0.15
    p_consecutive_ops: float = 0.35
    p_null_run: float = 0.04
    p_bbox: float = 0.06                 # per measure: a row of bounding boxes (*xywh-page:x,y,w,h), as in OMR ground truth
    max_sigs: int = 5                    # signifiers per note (up to all 35 in the long-token profile)
    chord_sizes: tuple = (2, 2, 3, 3, 4)
    long_text: float = 0.0               # probability of a very long free-text cell
    tiny: bool = False                   # boundary documents: header + terminator (+ at most one line)
    p_divergent_sig: float = 0.5        # inside a split, sibling sub-spines may get different signatures
    max_width: int = 7
    rejoin_before_barline: bool = False
    split_kern_only: bool = False
    p_gcomment: float = 0.06
    p_pre_gcomment: float = 0.4
    p_post_gcomment: float = 0.3
    p_blank: float = 0.04
    p_fcomment: float = 0.06
    p_tandem: float = 0.10
    p_mixed_interp: float = 0.06         # per null cell of a signature row: another kind of interpretation instead
    p_midsig: float = 0.08               # mid-score signature change rows
    sig_rows: tuple = ('clef', 'keysig', 'meter')   # initial signature kinds, each with p_sig
    p_sig: float = 0.85
    p_metersym: float = 0.15
    uniform_signatures: bool = True      # every kern spine gets every signature row
    nonkern_signatures: float = 0.0      # probability that a non-kern column receives a signature too
    opening_barline: str = 'random'      # always never random
    final_barline: str = 'random'
    p_pickup: float = 0.2
    bar_numbers: float = 0.6
    p_bar_type: float = 0.5              # probability that a barline has a drawn type (||, :|!|: ...) and, scaled, a fermata
    p_odd_numbering: float = 0.3         # measure numbers that do not count 1, 2, 3 ...: an offset, leading zeros, repeats, any order
    p_bar_suffix: float = 0.0            # explored class (C03): the marks the grammar tolerates at the end of a barline (j . ?)
    p_hidden_bar: float = 0.0            # invisible barlines (=-, =1-): only the measure-structure checks turn this on
    hostile: float = 0.5
    hostile_text: float = 0.25
    boundary_text: float = 0.0           # probability that a lyric / field comment holds a Unicode line-boundary character
    separator_text: float = 0.0
    null_like_words: float = 0.02        # probability that a lyric is a word spelled with the characters of the null tokens ('...')
    p_chord: float = 0.15
    p_rest: float = 0.12
    p_null: float = 0.18
    allow_grace: bool = True
    allow_acc: bool = True
    allow_display: bool = True
    allow_sigs: bool = True
    allow_rational: bool = True
    allow_nodur: bool = True
    leading_quote_ok: bool = True        # a rendering may start a cell with '"'
    bar_variants: bool = True            # per-column different barline spellings in one row
    empty_measures: float = 0.08
    long_rows: int = 0                   # if >0: stress document with about this many data rows
    crlf: bool = False


class Doc:
    def __init__(self, headers):
        self.headers = list(headers)
        self.lines: List[Line] = []
        self.tags = set()
        self.crlf = False
        self._infos = None

    # ---- rendering -----------------------------------------------------------------------------------
    def text(self, variant=0, final_newline=True) -> str:
        nl = '\r\n' if self.crlf else '\n'
        s = nl.join(ln.render(variant) for ln in self.lines)
        return s + (nl if final_newline else '')

    def model_lines(self, variant=0):
        out = []
        for ln in self.lines:
            if ln.kind == 'g':
                out.append(('g', ln.text))
            elif ln.kind == 'b':
                out.append(('b',))
            else:
                out.append(('s', [c.render(variant) for c in ln.cells]))
        return out

    def infos(self):
        if self._infos is None:
            self._infos = SP.track(self.model_lines())
            for ln, info in zip(self.lines, self._infos):
                if ln.kind not in ('g', 'b'):
                    for c, s in zip(ln.cells, info.spine):
                        c.spine = s
        return self._infos

    def structured(self):
        return [(i, ln) for i, ln in enumerate(self.lines) if ln.kind not in ('g', 'b')]

    def n_notes(self):
        return sum(1 for ln in self.lines for c in ln.cells if c.kind in ('note', 'chord', 'rest'))


# ------------------------------------------------------------------------------------------------------
class _Gen:
    def __init__(self, rng, prof: Profile):
        self.rng = rng
        self.p = prof
        self.doc = None
        self.paths = []       # list of spine idx per live column
        self.types = []       # header type per spine idx
        self.measure_no = 0
        self.numbering = None
        self.number_offset = 0
        self.open_splits = 0
        self.colsig = []      # per live column: dict kind -> text (what the generator wrote last on that path)

    # cell factories ---------------------------------------------------------------------------------
    def typ(self, col):
        return self.types[self.paths[col]]

    def is_kernlike(self, col):
        return self.typ(col) in KERN_LIKE

    def note_cell(self, col) -> Cell:
        rng, p = self.rng, self.p
        r = rng.random()
        if r < p.p_null:
            return Cell('null', '.')
        if r < p.p_null + p.p_rest:
            n = N.rand_rest(rng, hostile=p.hostile, allow_sigs=p.allow_sigs)
            a, b = n.render(rng, p.hostile), n.render(rng, p.hostile)
            return Cell('rest', a, b, n)
        if r < p.p_null + p.p_rest + p.p_chord:
            ch = N.rand_chord(rng, hostile=p.hostile, allow_acc=p.allow_acc, allow_sigs=p.allow_sigs, sizes=p.chord_sizes,
                              max_sigs=min(p.max_sigs, 12) if p.max_sigs > 5 else 3, display_mix=p.p_chord_display_mix)
            self.doc.tags.add('chords')
            if ch.display_mix:
                self.doc.tags.add('chord_display_signifier_beside_accidental')
            a, b = ch.render(rng, p.hostile), ch.render(rng, p.hostile)
            return Cell('chord', self._q(a, ch), self._q(b, ch), ch)
        n = N.rand_note(rng, hostile=p.hostile, allow_grace=p.allow_grace, allow_acc=p.allow_acc,
                        allow_display=p.allow_display, allow_sigs=p.allow_sigs, allow_rational=p.allow_rational,
                        allow_nodur=p.allow_nodur, max_sigs=p.max_sigs)
        if n.dots:
            self.doc.tags.add('dotted')
        if n.grace or n.fixed_pre:
            self.doc.tags.add('grace')
        if n.dur and '%' in n.dur:
            self.doc.tags.add('rational')
        if n.acc:
            self.doc.tags.add('accidentals')
        a, b = n.render(rng, p.hostile), n.render(rng, p.hostile)
        return Cell('note', self._q(a, n), self._q(b, n), n)

    def _q(self, text, obj):
        if not self.p.leading_quote_ok and text.startswith('"'):
            return obj.plain()
        if text.startswith('"'):
            self.doc.tags.add('leading_quote_cell')
        return text

    def text_cell(self, col) -> Cell:
        rng, p = self.rng, self.p
        if rng.random() < 0.3:
            return Cell('null', '.')
        if p.separator_text and rng.random() < p.separator_text:
            self.doc.tags.add('separator_in_text_cell')
            return Cell('text', rng.choice(SEPARATOR_WORDS))
        if p.long_text and rng.random() < p.long_text:
            self.doc.tags.add('long_text_cell')
            return Cell('text', ' '.join(rng.choice(WORDS) for _ in range(rng.randint(40, 120))))
        if p.boundary_text and rng.random() < p.boundary_text:
            self.doc.tags.add('line_boundary_character_in_text')
            return Cell('text', rng.choice(BOUNDARY_WORDS))
        if p.null_like_words and rng.random() < p.null_like_words:
            self.doc.tags.add('null_like_words')
            return Cell('text', rng.choice(NULL_LIKE_WORDS))
        if rng.random() < p.hostile_text:
            w = rng.choice(HOSTILE_WORDS)
            if w.startswith('"'):
                if not p.leading_quote_ok:
                    w = 'x' + w
                else:
                    self.doc.tags.add('leading_quote_cell')
            self.doc.tags.add('hostile_text')
            return Cell('text', w)
        return Cell('text', rng.choice(WORDS))

    def data_cell(self, col) -> Cell:
        return self.note_cell(col) if self.is_kernlike(col) else self.text_cell(col)

    # line factories ---------------------------------------------------------------------------------
    def add(self, line: Line):
        self.doc.lines.append(line)
        return line

    def data_line(self):
        cells = [self.data_cell(c) for c in range(len(self.paths))]
        if all(c.kind == 'null' for c in cells):
            # make sure data lines carry something most of the time (all-null lines are still generated sometimes)
            if self.rng.random() < 0.8:
                k = self.rng.randrange(len(cells))
                for _ in range(20):
                    cells[k] = self.data_cell(k)
                    if cells[k].kind != 'null':
                        break
        if all(c.kind == 'null' for c in cells):
            self.doc.tags.add('all_null_data_line')
        self.add(Line('data', cells))

    def interp_line(self, kind, *, force_all=False, restate=None, only_spine=None):
        """kind: clef keysig meter metersym tandem.  restate: write this text in every sub-spine of only_spine."""
        rng, p = self.rng, self.p
        vocab = {'clef': CLEFS, 'keysig': KEYSIGS, 'meter': METERS, 'metersym': METERSYMS, 'tandem': TANDEMS}[kind]
        cells = []
        anything = False
        per_spine = {}
        for c in range(len(self.paths)):
            sp = self.paths[c]
            t = self.types[sp]
            give = False
            if only_spine is not None:
                give = sp == only_spine
            elif kind == 'tandem':
                give = rng.random() < (0.6 if t == '**kern' else 0.3)
            elif t == '**kern':
                give = True if (p.uniform_signatures or force_all) else rng.random() < 0.6
            else:
                give = rng.random() < p.nonkern_signatures
                if give:
                    self.doc.tags.add('nonkern_signature')
            if give:
                if kind != 'tandem' and sp in per_spine and not (restate is None and rng.random() < p.p_divergent_sig):
                    txt = per_spine[sp]        # sub-spines of one spine usually get the same signature
                elif kind != 'tandem' and sp in per_spine:
                    # a sibling sub-spine goes its own way: another signature, or none on this row
                    self.doc.tags.add('divergent_subspine_signatures')
                    if rng.random() < 0.4:
                        cells.append(Cell('nullinterp', '*'))
                        continue
                    txt = rng.choice(vocab)
                else:
                    txt = restate if restate is not None else rng.choice(vocab)
                    per_spine[sp] = txt
                cells.append(Cell(kind, txt))
                anything = True
            elif kind != 'tandem' and rng.random() < p.p_mixed_interp:
                # an interpretation row is a row of cells: a tempo mark or a key label beside a signature, a meter sign beside a meter
                cells.append(Cell('tandem', rng.choice([t_ for t_ in TANDEMS if not t_.startswith('*xywh') and not t_.startswith('*staff')])))
                self.doc.tags.add('mixed_interpretation_row')
            else:
                cells.append(Cell('nullinterp', '*'))
        if not anything:
            k = next((c for c in range(len(self.paths)) if self.typ(c) == '**kern'), 0)
            cells[k] = Cell(kind, rng.choice(vocab))
        if kind != 'tandem':
            for c, cell in enumerate(cells):
                if cell.kind == kind:
                    self.colsig[c][kind] = cell.text
        if kind != 'tandem' and not p.uniform_signatures:
            kern_cols = [c for c in range(len(self.paths)) if self.typ(c) == '**kern']
            if any(cells[c].kind != kind for c in kern_cols) and any(cells[c].kind == kind for c in kern_cols):
                self.doc.tags.add('nonuniform_signatures')
        self.add(Line('interp', cells))

    def written_number(self):
        """The number written on a barline.  It is a label: measures are counted by their barlines, whatever is written on them (the
        property says the number is the one thing a barline loses on export), so the label may start anywhere, repeat, go backwards,
        carry leading zeros or have twenty digits."""
        rng = self.rng
        if self.numbering is None:
            self.numbering = 'plain' if rng.random() >= self.p.p_odd_numbering else \
                rng.choice(['offset', 'offset', 'zeros', 'random', 'constant', 'huge'])
            self.number_offset = rng.choice([-1, 8, 9, 97, 98, 99, 997, 9998])
            if self.numbering != 'plain':
                self.doc.tags.add('odd_measure_numbering')
        k = self.measure_no
        if self.numbering == 'offset':
            return str(k + self.number_offset)
        if self.numbering == 'zeros':
            return '0' * rng.choice([1, 2, 2]) + str(k)
        if self.numbering == 'random':
            return str(rng.choice([0, 1, 2, 3, 10, 11, 100, k, k + 1, max(0, k - 1)]))
        if self.numbering == 'constant':
            return str(self.number_offset + 1)
        if self.numbering == 'huge':
            return str(10 ** 19 + k)
        return str(k)

    def bar_line(self, double=False):
        rng, p = self.rng, self.p
        self.measure_no += 1
        eq = '==' if double else '='
        num = self.written_number() if (rng.random() < p.bar_numbers and not double) else ''
        typ = rng.choice(BAR_TYPES) if rng.random() < p.p_bar_type else ''
        ferm = ';' if rng.random() < 0.07 * (p.p_bar_type / 0.5) else ''
        hidden = (not double) and p.p_hidden_bar > 0 and rng.random() < p.p_hidden_bar
        if hidden:
            self.doc.tags.add('hidden_barlines')
        suffix = ''
        if p.p_bar_suffix and not hidden and rng.random() < p.p_bar_suffix:
            suffix = rng.choice(['j', '.', '?', 'j.', '.?'])
            self.doc.tags.add('barline_suffix')
        cells = []
        for c in range(len(self.paths)):
            t, n_, f = typ, num, ferm
            if p.bar_variants and rng.random() < 0.08:
                n_ = '' if n_ else self.written_number()
            if p.bar_variants and rng.random() < 0.06:
                # the cells of one barline row need not agree: a double bar, a repeat sign or a fermata in one staff only
                t = rng.choice(BAR_TYPES)
                if rng.random() < 0.4:
                    f = '' if f else ';'
                self.doc.tags.add('barline_row_with_different_cells')
            # the whole row is invisible or none of it is; kernpy replaces an invisible barline by a null on export
            cells.append(Cell('bar', f'{eq}{n_}{"-" if hidden else ""}{t}{f}{suffix}',
                              obj={'eq': eq, 'num': n_, 'type': t, 'fermata': f, 'hidden': hidden, 'suffix': suffix}))
        self.add(Line('bar', cells))

    def fcomment_line(self):
        rng = self.rng
        cells = []
        for c in range(len(self.paths)):
            if rng.random() < 0.5:
                cells.append(Cell('fcomment', '!'))
            else:
                w = rng.choice(WORDS + (HOSTILE_WORDS if self.p.hostile_text else []))
                if self.p.separator_text and rng.random() < self.p.separator_text:
                    w = rng.choice(SEPARATOR_WORDS)
                    self.doc.tags.add('separator_in_text_cell')
                if self.p.boundary_text and rng.random() < self.p.boundary_text:
                    w = rng.choice(BOUNDARY_WORDS)
                    self.doc.tags.add('line_boundary_character_in_text')
                if w.startswith('!'):
                    w = 'x' + w
                cells.append(Cell('fcomment', '!' + w))
        self.add(Line('fcomment', cells))

    def gcomment_line(self, where):
        rng = self.rng
        key = rng.choice(['COM', 'OTL', 'voices', 'ENC', 'COM'])
        val = rng.choice(['Bach, J.S.', 'Coltrane', 'Blue Train', '1', 'naïve title', 'x: y', '"q"', 'a,b'])
        r = rng.random()
        if r < 0.55:
            txt = f'!!!{key}: {val}'
        elif r < 0.78:
            txt = f'!!{val}'
        elif r < 0.88:
            # a plain remark that names a key without being that record: '!! COM: see below', '!!-ENC', '!!:OTL: x'
            txt = '!!' + rng.choice([' ', '-', ':', '\t' if False else '.']) + f'{key}: {val}'
        else:
            txt = f'!!!{key}:{val}'
        self.add(Line('g', text=txt))
        self.doc.tags.add(f'global_comment_{where}')

    def blank_line(self):
        self.add(Line('b'))
        self.doc.tags.add('blank_lines')

    def op_line(self, ops):
        """ops: dict col -> op text"""
        cells = [Cell('op', ops[c]) if c in ops else Cell('nullinterp', '*') for c in range(len(self.paths))]
        self.add(Line('op', cells))
        spines = list(self.paths)
        nxt = SP.next_paths([c.text for c in cells], spines)
        self.paths = [s for s, _ in nxt]
        self.colsig = [dict(self.colsig[src]) for _, src in nxt]

    # spine operations -------------------------------------------------------------------------------
    def join_candidates(self):
        return [c for c in range(len(self.paths) - 1) if self.paths[c] == self.paths[c + 1]]

    def maybe_ops(self, allow_split=True):
        rng, p = self.rng, self.p
        did = False
        jc = self.join_candidates()
        ops = {}
        if jc and rng.random() < p.p_join:
            c = rng.choice(jc)
            ops[c] = '*v'
            ops[c + 1] = '*v'
            if c + 2 < len(self.paths) and self.paths[c + 2] == self.paths[c] and rng.random() < 0.4:
                ops[c + 2] = '*v'
                self.doc.tags.add('three_way_join')
            self.doc.tags.add('joins')
            self.restate_before_join(sorted(ops))
        if allow_split and len(self.paths) + 1 - (len(ops) - 1 if ops else 0) <= p.max_width and rng.random() < p.p_split \
                and (not ops or rng.random() < p.p_combo_ops):
            cols = [c for c in range(len(self.paths)) if c not in ops and
                    (not p.split_kern_only or self.typ(c) == '**kern')]
            if cols:
                c = rng.choice(cols)
                ops[c] = '*^'
                if self.paths.count(self.paths[c]) > 1:
                    self.doc.tags.add('nested_splits')
                if self.paths[c] != 0:
                    self.doc.tags.add('split_in_nonfirst_spine')
                self.doc.tags.add('splits')
                if len([o for o in ops.values() if o == '*v']) > 0:
                    self.doc.tags.add('combined_ops_row')
        if len(self.paths) > 1 and rng.random() < p.p_early_term and not p.rejoin_before_barline:
            cols = [c for c in range(len(self.paths)) if c not in ops]
            if cols and len(self.paths) - 1 >= 1:
                c = rng.choice(cols)
                # keep at least one live path
                survivors = len(self.paths) - 1
                if survivors >= 1:
                    ops[c] = '*-'
                    self.doc.tags.add('early_terminator')
        if len(self.paths) > 1 and p.p_spine_end and rng.random() < p.p_spine_end:
            cols = [c for c in range(len(self.paths)) if c not in ops and self.paths.count(self.paths[c]) == 1]
            alive = {self.paths[c] for c in range(len(self.paths))}
            if cols and len(alive) > 1:
                c = cols[0] if rng.random() < 0.5 else rng.choice(cols)      # the first column as often as all others together
                ops[c] = '*-'
                self.doc.tags.add('early_terminator')
                self.doc.tags.add('spine_ended_early')
        if ops:
            self.op_line(ops)
            did = True
        return did

    def restate_before_join(self, cols):
        """Humdrum does not say which signature governs after a join of sub-spines that carry different ones: re-state a common
        signature in all sub-spines of that spine first, so that the context after the join is unambiguous."""
        sp = self.paths[cols[0]]
        for kind in ('clef', 'keysig', 'meter'):
            vals = {self.colsig[c].get(kind) for c in cols}
            if len(vals) > 1:
                vocab = {'clef': CLEFS, 'keysig': KEYSIGS, 'meter': METERS}[kind]
                self.interp_line(kind, restate=self.rng.choice(vocab), only_spine=sp)
                self.doc.tags.add('signature_restated_before_join')

    def join_all(self):
        guard = 0
        while self.join_candidates() and guard < 20:
            guard += 1
            jc = self.join_candidates()
            c = jc[0]
            ops = {c: '*v', c + 1: '*v'}
            k = c + 2
            while k < len(self.paths) and self.paths[k] == self.paths[c]:
                ops[k] = '*v'
                k += 1
            self.restate_before_join(sorted(ops))
            self.op_line(ops)

    # the document -----------------------------------------------------------------------------------
    def build(self) -> Doc:
        rng, p = self.rng, self.p
        n = rng.randint(p.min_spines, p.max_spines)
        types = [rng.choice(p.types) for _ in range(n)]
        if p.first_kern and '**kern' not in types:
            types[rng.randrange(n)] = '**kern'
        self.types = types
        doc = self.doc = Doc(types)
        doc.crlf = p.crlf
        if any(t not in ('**kern',) for t in types):
            doc.tags.add('nonkern_spines')
        if '**root' in types:
            doc.tags.add('root_spine')
        if types.count('**kern') > 1:
            doc.tags.add('multi_kern')
        # pre-header
        while rng.random() < p.p_pre_gcomment and len(doc.lines) < 3:
            self.gcomment_line('before')
            if rng.random() < p.p_blank:
                self.blank_line()
        self.add(Line('header', [Cell('header', t) for t in types]))
        self.paths = list(range(n))
        self.colsig = [{} for _ in range(n)]
        if rng.random() < p.p_gcomment:
            self.gcomment_line('inside')
        # initial signatures and tandems
        if rng.random() < p.p_tandem * 2:
            self.interp_line('tandem')
        for kind in p.sig_rows:
            if rng.random() < p.p_sig:
                self.interp_line(kind)
            else:
                doc.tags.add(f'no_initial_{kind}')
        if rng.random() < p.p_metersym:
            self.interp_line('metersym')
        if rng.random() < p.p_tandem:
            self.interp_line('tandem')
        if p.tiny:
            doc.tags.add('tiny_document')
            k = rng.choice([0, 0, 1, 2])
            if k == 1:
                self.data_line()
            elif k == 2:
                self.bar_line()
            self.add(Line('op', [Cell('op', '*-') for _ in self.paths]))
            self.paths = []
            doc.infos()
            return doc
        # measures
        n_meas = rng.randint(*p.measures)
        opening = {'always': True, 'never': False, 'random': rng.random() < 0.6}[p.opening_barline]
        pickup = (not opening) or False
        if opening and rng.random() < p.p_pickup:
            # pickup: data before the first barline
            doc.tags.add('pickup')
            for _ in range(rng.randint(1, 2)):
                self.data_line()
        if not opening:
            doc.tags.add('no_opening_barline')
        total_rows = 0
        for m in range(n_meas):
            if m > 0 or opening:
                if p.rejoin_before_barline:
                    self.join_all()
                elif self.join_candidates():
                    doc.tags.add('split_spans_barline')
                self.bar_line()
            if rng.random() < p.empty_measures and m > 0:
                doc.tags.add('empty_measure')
                continue
            if rng.random() < p.p_bbox:
                page = rng.choice([1, 1, 2, 12])
                cells = []
                for c in range(len(self.paths)):
                    if rng.random() < 0.8:
                        cells.append(Cell('tandem', f'*xywh-{page}:{rng.randint(0, 400)},{rng.randint(0, 900)},{rng.randint(1, 600)},{rng.randint(1, 200)}'))
                    else:
                        cells.append(Cell('nullinterp', '*'))
                if all(c.kind == 'nullinterp' for c in cells):
                    cells[0] = Cell('tandem', f'*xywh-{page}:1,2,3,4')
                self.add(Line('interp', cells))
                doc.tags.add('bounding_boxes')
            n_rows = rng.randint(*p.rows)
            if p.long_rows:
                n_rows = max(1, p.long_rows // max(1, n_meas))
            for r in range(n_rows):
                if rng.random() < p.p_blank:
                    self.blank_line()
                if rng.random() < p.p_gcomment:
                    self.gcomment_line('inside')
                if rng.random() < p.p_fcomment:
                    self.fcomment_line()
                if rng.random() < p.p_tandem:
                    self.interp_line('tandem')
                if rng.random() < p.p_midsig and (m > 0 or r > 0):
                    kind = rng.choice(['clef', 'keysig', 'meter', 'clef'])
                    self.interp_line(kind)
                    doc.tags.add('midscore_signature_change')
                    if kind == 'clef':
                        doc.tags.add('clef_change')
                if self.maybe_ops():
                    # operator rows may directly follow each other (optionally with a global comment in between)
                    for _ in range(2):
                        if rng.random() < p.p_consecutive_ops:
                            if rng.random() < 0.25:
                                self.gcomment_line('inside')
                            if self.maybe_ops():
                                doc.tags.add('consecutive_operator_rows')
                self.data_line()
                total_rows += 1
                if rng.random() < p.p_null_run:
                    # a run of consecutive all-null lines (null data lines, optionally a null interpretation line)
                    for _ in range(rng.randint(2, 3)):
                        if rng.random() < 0.25:
                            self.add(Line('interp', [Cell('nullinterp', '*') for _c in self.paths]))
                        else:
                            self.add(Line('data', [Cell('null', '.') for _c in self.paths]))
                    doc.tags.add('run_of_null_lines')
        # closing
        if p.rejoin_before_barline:
            self.join_all()
        final = {'always': True, 'never': False, 'random': rng.random() < 0.6}[p.final_barline]
        if final:
            if self.join_candidates() and not p.rejoin_before_barline:
                doc.tags.add('split_spans_barline')
            self.bar_line(double=rng.random() < 0.6)
        else:
            doc.tags.add('no_final_barline')
        if rng.random() < p.p_gcomment:
            self.gcomment_line('inside')
        # terminate everything (optionally joining first)
        if rng.random() < 0.5:
            self.join_all()
        self.add(Line('op', [Cell('op', '*-') for _ in self.paths]))
        self.paths = []
        while rng.random() < p.p_post_gcomment and len(doc.lines) < 10 ** 6:
            self.gcomment_line('after')
            if rng.random() < 0.5:
                break
        if p.long_rows:
            doc.tags.add('long')
        doc.infos()
        return doc


def gen_doc(rng, prof: Profile = None) -> Doc:
    return _Gen(rng, prof or Profile()).build()


# ---- a few named profiles ---------------------------------------------------------------------------------
def profile(name: str, **over) -> Profile:
    base = {
        'default': dict(),
        'kern_only': dict(types=('**kern',), max_spines=3),
        'kern_core': dict(types=('**kern',), max_spines=3, rejoin_before_barline=True, p_midsig=0.0,
                          uniform_signatures=True, p_early_term=0.0, p_sig=1.0, measures=(1, 8)),
        'simple': dict(p_split=0.0, p_gcomment=0.0, p_blank=0.0, p_early_term=0.0, max_spines=3),
        'splitty': dict(p_split=0.35, p_join=0.35, max_width=8, measures=(1, 4), rows=(2, 6), p_early_term=0.05),
        'texty': dict(types=('**kern', '**text', '**dynam', '**dyn', '**harm', '**mxhm', '**fing'), min_spines=2,
                      hostile_text=0.6),
        # boundary shapes of realistic data
        'many_spines': dict(min_spines=5, max_spines=13, measures=(1, 3), rows=(1, 3), p_split=0.05, max_width=16),
        'many_measures': dict(max_spines=2, measures=(101, 125), rows=(1, 1), p_split=0.01, p_gcomment=0.0, p_fcomment=0.01,
                              p_tandem=0.01, p_midsig=0.0, bar_numbers=1.0, empty_measures=0.3, p_null_run=0.0, p_blank=0.0),
        'wide_split': dict(max_spines=2, p_split=0.7, p_join=0.1, max_width=14, measures=(1, 3), rows=(4, 9), p_early_term=0.0),
        'long_tokens': dict(max_sigs=35, chord_sizes=(5, 6, 8, 9), long_text=0.3, p_chord=0.3, measures=(1, 3)),
        # scores without any **kern spine (lyrics, dynamics, harmony, fingering, **root alone or side by side)
        'no_kern': dict(types=('**text', '**dynam', '**dyn', '**harm', '**mxhm', '**fing', '**root', '**text'), first_kern=False, max_spines=3),
        'tiny': dict(tiny=True, p_sig=0.3, p_pre_gcomment=0.2, p_post_gcomment=0.2, p_tandem=0.0, p_metersym=0.0),
    }[name]
    base = dict(base)
    base.update(over)
    return Profile(**base)
