"""Exhaustive enumeration of spine-operator layouts from the spine-path model (C02 workload (a)).

A layout is a sequence of legal operator rows.  In a row every live sub-spine does one of `*` (nothing), `*^`,
`*-`, or takes part in a join run (>= 2 adjacent `*v` cells of the same spine); at least one cell is an operator.
"""
from __future__ import annotations

from ..model import spinepaths as SP


def op_rows(paths, max_width):
    """All legal operator rows for the live paths (tuple of spine ids), with at least one operator and a
    resulting width <= max_width.  Yields (cells, next_paths)."""
    n = len(paths)
    out = []

    def rec(i, cells):
        if i == n:
            if all(c == '*' for c in cells):
                return
            # every maximal same-spine run of *v must have length >= 2
            j = 0
            while j < n:
                if cells[j] == '*v':
                    k = j
                    while k + 1 < n and cells[k + 1] == '*v' and paths[k + 1] == paths[j]:
                        k += 1
                    if k == j:
                        return
                    j = k + 1
                else:
                    j += 1
            nxt = tuple(s for s, _ in SP.next_paths(list(cells), list(paths)))
            if len(nxt) <= max_width:
                out.append((tuple(cells), nxt))
            return
        for op in ('*', '*^', '*v', '*-'):
            rec(i + 1, cells + [op])
    rec(0, [])
    return out


def enum_layouts(n_spines, max_depth, max_width):
    """Yields lists of operator rows (each a tuple of cells).  A layout stops when max_depth is reached or no path
    is live; layouts of every length 1..max_depth are produced."""
    start = tuple(range(n_spines))

    def rec(paths, rows):
        if rows:
            yield list(rows)
        if len(rows) == max_depth or not paths:
            return
        for cells, nxt in op_rows(paths, max_width):
            rows.append(cells)
            yield from rec(nxt, rows)
            rows.pop()
    yield from rec(start, [])


def count(n_spines, max_depth, max_width):
    return sum(1 for _ in enum_layouts(n_spines, max_depth, max_width))
