"""Abstract notes / rests / chords and their renderings.

An abstract note says what the cell *means* (duration parts, pitch letters, accidental, set of signifiers) independently
of kernpy's parser; `render` writes it in one of many equivalent ways (signifier order, position, repetition), and
`canonical_*` give the normal form the properties talk about.
"""
from __future__ import annotations

from dataclasses import dataclass, field
from typing import List, Optional, Tuple

# The 35 single-character note signifiers that the grammar never combines with a neighbour
# (W/w combine into 'Ww'; < > ? x y & and q p P . are excluded by the property).
SIG_ALPHABET = list("^'s\"`~TtLJKkX;:[]_Mm{}()/\\S$iNjZOlV")
assert len(SIG_ALPHABET) == 35 and len(set(SIG_ALPHABET)) == 35
# characters of the alphabet that the grammar also reads as an alteration-display suffix after an accidental
DISPLAY_LIKE = set('XijZ')
REST_SIGS = list(";(){}'X")
TAIL_MARKS = ('.', 'q')  # duration-like marks written after the pitch
UNIT_SIGS = {'yy'}     # decorations of more than one character (rests only)
# decorations of single notes that are ONE token of several characters and CONTAIN another signifier: an elided slur ('&(' beside
# '(' ), the inverted-mordent pair 'Ww' beside 'W'.  Written once, after the accidental (probed: both orders read back the same)
NOTE_UNITS = [('&(', '('), ('&)', ')'), ('Ww', 'W'), ('&(', None), ('Ww', None)]
DISPLAY_SUFFIXES = ['x', 'X', 'i', 'I', 'j', 'Z', 'y', 'yy', 'Y', 'YY']

LETTERS = 'abcdefg'


@dataclass
class Note:
    dur: Optional[str]            # '4', '3%2', '0', None
    dots: int = 0
    grace: str = ''               # '', 'q', 'qq', 'p', 'P'  (only with a duration; without one 'q' is a signifier)
    letters: str = 'c'            # 'cc', 'BB' ; 'r' for rests
    acc: str = ''                 # '', 'n', '#', '##', '-', '--', '###', '---', optionally + display suffix
    sigs: Tuple[str, ...] = ()    # distinct signifier characters
    rest: bool = False
    fixed_pre: str = ''           # signifiers rendered at a fixed place before the pitch (grace 'q' without duration)
    implicit_dur: bool = False    # chord member written without its duration: it has the duration of the member before it

    # ---- abstract views ------------------------------------------------------------------------------
    def dur_parts(self) -> List[str]:
        out = []
        if self.dur is not None:
            out.append(self.dur)
            out.extend(['.'] * self.dots)
            if self.grace:
                out.append(self.grace)
        return out

    def all_sigs(self):
        return tuple(sorted(set(self.sigs) | set(self.fixed_pre)))

    def pitch_parts(self):
        if self.rest:
            return ['r']
        return [self.letters] + ([self.acc] if self.acc else [])

    def canonical_ekern(self, sigs=None) -> str:
        sigs = self.all_sigs() if sigs is None else tuple(sorted(sigs))
        s = '@'.join(self.dur_parts() + self.pitch_parts())
        if sigs:
            s += '·' + '·'.join(sigs)
        return s

    def canonical_kern(self, sigs=None) -> str:
        return self.canonical_ekern(sigs).replace('@', '').replace('·', '')

    def plain(self) -> str:
        """Rendering in the standard order: signifiers after the pitch, sorted, once each."""
        return self.fixed_pre + ('' if self.implicit_dur else ''.join(self.dur_parts())) + ''.join(self.pitch_parts()) + ''.join(sorted(self.sigs))

    def alteration(self) -> int:
        a = self.acc.rstrip('xXiIjZyY')
        if a.startswith('#'):
            return len(a)
        if a.startswith('-'):
            return -len(a)
        return 0

    def octave(self) -> int:
        if self.letters[0].islower():
            return 3 + len(self.letters)
        return 4 - len(self.letters)

    # ---- renderings ----------------------------------------------------------------------------------
    def render(self, rng, hostile=0.5) -> str:
        """A random equivalent spelling of the same abstract note."""
        dur_txt = '' if self.implicit_dur else ''.join(self.dur_parts())
        if self.rest:
            pre, post = [], []
            for s in self.sigs:
                if len(s) > 1 or s.lower() in LETTERS:     # a unit ('yy', a position 'cc' / 'G'): once, never repeated
                    (pre if (s == 'yy' and rng.random() < 0.2) else post).append(s)
                    continue
                reps = 1 if rng.random() > hostile * 0.4 else rng.choice([2, 3])
                for _ in range(reps):
                    (pre if rng.random() < 0.3 else post).append(s)
            rng.shuffle(pre)
            rng.shuffle(post)
            return ''.join(pre) + dur_txt + 'r' + ''.join(post)
        slots = [[], [], [], []]  # before duration, duration..pitch, pitch..accidental, after accidental
        for s in self.sigs:
            if s in TAIL_MARKS or len(s) > 1 or s == 'W':
                slots[3].append(s)      # once, after the accidental (anywhere earlier it would be a duration mark)
                continue
            n_places = 1 if rng.random() > hostile * 0.35 else 2
            for _ in range(n_places):
                if rng.random() < hostile:
                    pos = rng.choice([0, 1, 2, 3])
                else:
                    pos = 3
                reps = 1 if rng.random() > hostile * 0.3 else rng.choice([2, 3])
                slots[pos].extend([s] * reps)
        for sl in slots:
            rng.shuffle(sl)
        return (self.fixed_pre + ''.join(slots[0]) + dur_txt + ''.join(slots[1]) + self.letters + ''.join(slots[2])
                + self.acc + ''.join(slots[3]))


@dataclass
class Chord:
    notes: List[Note] = field(default_factory=list)
    display_mix: bool = False     # explored class: accidental on one note, a signifier X / i / j / Z on another

    def union_sigs(self, rests=False):
        """The notes of a chord share their signifiers; a rest written among them keeps its own and takes none of theirs (a rest
        cannot carry a stem or a beam, a note cannot carry the vertical position of a rest, two rests have two positions)."""
        u = set()
        for n in self.notes:
            if bool(n.rest) == rests:
                u |= set(n.all_sigs())
        return tuple(sorted(u))

    def union_for(self, member):
        # a rest keeps exactly its own signifiers (its vertical position is its own); the notes share theirs
        return tuple(sorted(member.all_sigs())) if member.rest else self.union_sigs(rests=False)

    def canonical_ekern(self):
        return ' '.join(n.canonical_ekern(self.union_for(n)) for n in self.notes)

    def canonical_kern(self):
        return self.canonical_ekern().replace('@', '').replace('·', '')

    def plain(self):
        return ' '.join(n.plain() for n in self.notes)

    def render(self, rng, hostile=0.5):
        return ' '.join(n.render(rng, hostile) for n in self.notes)


# ------------------------------------------------------------------------------------------------------
DURS = ['1', '2', '4', '8', '16', '32', '64', '4', '4', '8', '2', '0', '00', '3', '6', '12', '24', '3%2', '5%4', '128']
# numeric edges of the duration field: kernpy keeps the digits as written (probed: every one of these is its own normal form), so a
# duration is a string of digits, never a number that could be re-formatted, compared or looked up in a table
RARE_DURS = ['000', '0000', '256', '512', '1024', '48', '96', '7', '9', '10', '20', '40', '100', '112', '04', '008', '010',
             '99999999999999999999']
RARE_RATIONAL_DURS = ['3%4', '2%3', '16%3', '4%15', '10%3', '12%10', '1%1', '4%04', '100%99', '3%22']
P_RARE_DUR = 0.05


def rand_dur(rng, allow_rational=True):
    dur = rng.choice(DURS)
    if rng.random() < P_RARE_DUR:
        dur = rng.choice(RARE_DURS + (RARE_RATIONAL_DURS if allow_rational else []))
    if not allow_rational and '%' in dur:
        dur = '4'
    return dur


def rand_letters(rng, wide=True):
    l = rng.choice(LETTERS)
    if wide and rng.random() < 0.15:
        n = rng.choice([4, 5, 6])
    else:
        n = rng.choice([1, 1, 1, 2, 2, 3])
    if rng.random() < 0.45:
        return l.upper() * min(n, 5)
    return l * n


def rand_note(rng, *, hostile=0.5, allow_grace=True, allow_acc=True, allow_display=True, max_sigs=5,
              allow_sigs=True, allow_rational=True, allow_nodur=True, chord_has_acc=None) -> Note:
    """chord_has_acc: None for a single note; for chord members True/False says whether ANY note of the chord has
    an accidental (display-like signifiers are then forbidden for all members)."""
    dur = rand_dur(rng, allow_rational)
    dots = 0
    r = rng.random()
    if r < 0.22:
        dots = 1
    elif r < 0.30:
        dots = 2
    elif r < 0.32:
        dots = rng.choice([3, 3, 4])
    grace = ''
    fixed_pre = ''
    if allow_grace and rng.random() < 0.12:
        grace = rng.choice(['q', 'q', 'qq', 'p', 'P'])
        dots = 0 if rng.random() < 0.7 else dots
    if allow_nodur and allow_grace and chord_has_acc is None and rng.random() < 0.03:
        dur, dots, grace, fixed_pre = None, 0, '', 'q'
    elif allow_nodur and chord_has_acc is None and rng.random() < 0.03:
        dur, dots, grace, fixed_pre = None, 0, '', ''      # a bare pitch: a note cell without any duration ('c', 'GG#L')
    acc = ''
    if allow_acc and rng.random() < 0.4:
        acc = rng.choice(['#', '-', '#', '-', 'n', '##', '--', '###', '---'] if hostile > 0.3 else ['#', '-', 'n'])
        if allow_display and rng.random() < 0.15:
            acc += rng.choice(DISPLAY_SUFFIXES)
    sigs = ()
    if allow_sigs and rng.random() < 0.6:
        k = rng.randint(1, max_sigs)
        pool = SIG_ALPHABET
        has_acc = bool(acc) if chord_has_acc is None else chord_has_acc
        if has_acc:
            pool = [c for c in SIG_ALPHABET if c not in DISPLAY_LIKE]
        sigs = tuple(sorted(rng.sample(pool, min(k, len(pool)))))
    # rarely used spellings: an augmentation dot or a grace mark written AFTER the pitch (4c., 8eq).  kernpy files them under the
    # note's decorations ('.' / 'q' sort before the letters); they are written once, after the accidental.
    if dur is not None and allow_sigs and chord_has_acc is None:
        if dots == 0 and rng.random() < 0.04:
            sigs = tuple(sorted(set(sigs) | {'.'}))
        if allow_grace and not grace and rng.random() < 0.03:
            sigs = tuple(sorted(set(sigs) | {'q'}))
    if allow_sigs and chord_has_acc is None and rng.random() < 0.05:
        unit, part = rng.choice(NOTE_UNITS)
        sigs = tuple(sorted(set(sigs) | {unit} | ({part} if part else set())))
    return Note(dur=dur, dots=dots, grace=grace, letters=rand_letters(rng), acc=acc, sigs=sigs, fixed_pre=fixed_pre)


def rand_rest(rng, *, hostile=0.5, allow_sigs=True) -> Note:
    dur = rand_dur(rng)
    dots = 1 if rng.random() < 0.2 else (3 if rng.random() < 0.02 else 0)
    sigs = ()
    if allow_sigs and rng.random() < 0.3:
        sigs = tuple(sorted(rng.sample(REST_SIGS, rng.randint(1, 2))))
    if allow_sigs and rng.random() < 0.12:
        # an invisible rest (ryy): 'yy' is ONE decoration of two characters; written once, after the r
        sigs = tuple(sorted(set(sigs) | {'yy'}))
    if allow_sigs and rng.random() < 0.08:
        # a rest with a vertical position (4rcc, 8rG): the position is ONE decoration, written after the r
        l = rng.choice(LETTERS)
        pos = (l.upper() if rng.random() < 0.4 else l) * rng.choice([1, 1, 2, 2, 3])
        sigs = tuple(sorted(set(sigs) | {pos}))
    return Note(dur=dur, dots=dots, letters='r', rest=True, sigs=sigs)


def rand_chord(rng, *, hostile=0.5, allow_acc=True, allow_sigs=True, allow_grace=True, sizes=(2, 2, 3, 3, 4), max_sigs=3,
               display_mix=0.0) -> Chord:
    """display_mix: probability of the explored class 'a chord in which one note has an accidental and ANOTHER note carries one of
    the signifiers X i j Z' (characters the grammar also reads as a display mark when they follow an accidental)."""
    n = rng.choice(list(sizes))
    mix = display_mix > 0 and rng.random() < display_mix
    has_acc = allow_acc and (mix or rng.random() < 0.5)
    notes = []
    # a rest inside a chord, at any place: it keeps the signifiers written on rests, the notes keep theirs
    rest_at = {rng.randrange(n)} if rng.random() < 0.10 else set()
    if rest_at and n >= 3 and rng.random() < 0.3:
        rest_at.add(rng.randrange(n))
    for i in range(n):
        if i in rest_at:
            notes.append(rand_rest(rng, hostile=hostile, allow_sigs=allow_sigs))
            continue
        note = rand_note(rng, hostile=hostile, allow_grace=False, allow_acc=has_acc, allow_display=False,
                         max_sigs=max_sigs, allow_sigs=allow_sigs, allow_nodur=False, chord_has_acc=has_acc)
        notes.append(note)
    if has_acc and not any(x.acc for x in notes if not x.rest):
        for x in notes:
            if not x.rest:
                x.acc = '#'
                break
    if all(x.rest for x in notes):
        notes[0] = rand_note(rng, hostile=hostile, allow_grace=False, allow_acc=False, allow_sigs=False,
                             allow_nodur=False, chord_has_acc=has_acc)
    # a member written without a duration takes the duration of the member before it ('4c e g', '8r e'): the abstract member has
    # that duration, only the text leaves it out
    for i in range(1, len(notes)):
        if notes[i - 1].dur is not None and not notes[i - 1].grace and rng.random() < 0.08:
            notes[i].dur, notes[i].dots, notes[i].grace = notes[i - 1].dur, notes[i - 1].dots, ''
            notes[i].implicit_dur = True
    ch = Chord(notes)
    if mix:
        plain = [x for x in notes if not x.rest and not x.acc]
        if plain and any(x.acc for x in notes if not x.rest):
            x = rng.choice(plain)
            x.sigs = tuple(sorted(set(x.sigs) | {rng.choice(sorted(DISPLAY_LIKE))}))
            ch.display_mix = True
    return ch
