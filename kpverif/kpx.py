"""Helpers that touch the real kernpy objects: safe calls, token fingerprints, deep snapshots, tree-shape monitor."""
from __future__ import annotations

import kernpy as kp
from kernpy.core import tokens as T
from kernpy.core import document as D

import re as _re
_RE_ADDR = _re.compile(r'0x[0-9a-fA-F]+')
Enc = kp.Encoding
ENCODINGS = [Enc.normalizedKern, Enc.eKern, Enc.bKern, Enc.bEkern, Enc.agnosticKern, Enc.agnosticExtendedKern]
ENC_BY_NAME = {'kern': Enc.normalizedKern, 'ekern': Enc.eKern, 'bkern': Enc.bKern, 'bekern': Enc.bEkern,
               'akern': Enc.agnosticKern, 'aekern': Enc.agnosticExtendedKern}
PLAIN_OF = {'ekern': 'kern', 'bekern': 'bkern', 'aekern': 'akern'}
PREFIX = {'kern': '', 'ekern': 'e', 'bkern': 'b', 'bekern': 'be', 'akern': 'a', 'aekern': 'ae'}


# The public ways to the same import.  Every check reads its documents through loads() below, which takes them in turn: what a
# property says about "an imported document" does not depend on which of the documented doors the text came in through.
LOAD_ROUTES = ('loads', 'loads(raise_on_errors=False)', 'Importer().import_string', 'loads(raise_on_errors=True)', 'create [deprecated]',
               'Generic.create')
_route_seen = {}
route_counts = {}


def _load_by(route, text):
    if route == 'loads':
        return kp.loads(text)
    if route == 'loads(raise_on_errors=False)':
        return kp.loads(text, raise_on_errors=False)
    if route == 'Importer().import_string':
        imp = kp.Importer()
        doc = imp.import_string(text)
        return doc, imp.errors
    if route == 'loads(raise_on_errors=True)':
        try:
            return kp.loads(text, raise_on_errors=True)
        except ValueError:
            raise
        except Exception:  # noqa - the text has grammar errors (that is what this door refuses): take the lenient door for it
            return kp.loads(text)
    if route == 'create [deprecated]':
        import warnings
        with warnings.catch_warnings():
            warnings.simplefilter('ignore')
            return kp.create(text)
    from kernpy.core.generic import Generic
    return Generic.create(content=text, strict=False)


# Bystander documents (opt-in per check): exports already taken from earlier documents of the run are taken again after a later
# import - a Document owes nothing to the texts that are imported after it.
_BYSTANDER = {'ctx': None, 'ring': [], 'n': 0}


def enable_bystanders(ctx):
    _BYSTANDER.update(ctx=ctx, ring=[], n=0)


def forget_bystander(doc=None):
    """The harness is about to hand `doc` to a call that is known to change it (to_transposed shares its nodes with the source -
    C15's finding): its recorded exports are no longer expected to repeat.  Without argument: forget all."""
    _BYSTANDER['ring'] = [r for r in _BYSTANDER['ring'] if doc is not None and r[0] is not doc]


def _bystander_record(doc, kw, out, exc):
    b = _BYSTANDER
    if b['ctx'] is None or exc is not None or doc is None:
        return
    b['n'] += 1
    if b['n'] % 7 == 0 or len(b['ring']) < 4:
        b['ring'].append((doc, dict(kw), out))
        del b['ring'][:-6]


def _bystander_check():
    b = _BYSTANDER
    ctx = b['ctx']
    if ctx is None or not b['ring']:
        return
    for doc, kw, out in b['ring'][-3:]:
        ctx.mon('bystander_exports_retaken_after_a_later_import')
        try:
            again, exc = kp.dumps(doc, **kw), None
        except Exception as e:  # noqa
            again, exc = None, e
        if again != out:
            ctx.violation('earlier-document-changed-by-later-import', f'an export {str(kw)[:120]} of a document imported earlier in the run '
                          f'{"raises " + type(exc).__name__ if exc is not None else "differs (" + str(len(again)) + " vs " + str(len(out)) + " chars)"} '
                          f'after a later import', {'options': str(kw), 'first': out, 'again': again if exc is None else repr(exc)})
            b['ring'] = [r for r in b['ring'] if r[0] is not doc]


def loads(text):
    """-> (doc, errors, exception)"""
    # a function of the text and of how often this process has imported it (so a replay takes the same door, and two imports of
    # one text take different ones)
    import zlib
    h = zlib.crc32(text.encode('utf-8', 'surrogatepass')) if isinstance(text, str) else 0
    n = _route_seen.get(h, 0)
    _route_seen[h] = n + 1
    route = LOAD_ROUTES[(h + n) % len(LOAD_ROUTES)]
    route_counts[route] = route_counts.get(route, 0) + 1
    try:
        doc, errs = _load_by(route, text)
    except Exception as e:  # noqa
        return None, None, e
    _bystander_check()
    return doc, errs, None


def dumps(doc, **kw):
    """-> (text, exception)"""
    try:
        out = kp.dumps(doc, **kw)
    except Exception as e:  # noqa
        return None, e
    _bystander_record(doc, kw, out, None)
    return out, None


def grid(text):
    """Exported text -> list of rows (list of cells).  Checks nothing."""
    if text == '':
        return []
    lines = text.split('\n')
    if lines and lines[-1] == '':
        lines = lines[:-1]
    return [ln.split('\t') for ln in lines]


def sub_fp(s):
    return (type(s).__name__, s.encoding, s.category.name if s.category is not None else None)


def tok_fp(t):
    """Fingerprint of a token: every field, every sub-token."""
    if t is None:
        return None
    base = [type(t).__name__, t.encoding, t.category.name if getattr(t, 'category', None) is not None else None,
            bool(getattr(t, 'hidden', False))]
    if isinstance(t, T.NoteRestToken):
        base.append(tuple(sub_fp(s) for s in t.pitch_duration_subtokens))
        base.append(tuple(sub_fp(s) for s in t.decoration_subtokens))
    elif isinstance(t, T.ChordToken):
        base.append(tuple(tuple(tok_fp(n)) for n in t.notes_tokens))
    elif isinstance(t, T.CompoundToken):
        base.append(tuple(sub_fp(s) for s in t.subtokens))
    elif isinstance(t, T.HeaderToken):
        base.append(t.spine_id)
    elif isinstance(t, T.SpineOperationToken):
        base.append(t.cancelled_at_stage)
    elif isinstance(t, T.BoundingBoxToken):
        bb = t.bounding_box
        base.append((t.page_number, bb.from_x, bb.from_y, bb.to_x, bb.to_y))
    elif isinstance(t, T.ErrorToken):
        # the message embeds reprs of parser error objects (memory addresses): normalise them
        base.append((t.line, _RE_ADDR.sub('0x?', str(t.error))))
    return tuple(base)


def positions(doc):
    """node -> (stage, index in stage)"""
    pos = {}
    for si, st in enumerate(doc.tree.stages):
        for ni, node in enumerate(st):
            pos[id(node)] = (si, ni)
    return pos


def snapshot(doc):
    """Deep structural snapshot of a document, independent of node ids and memory addresses."""
    pos = positions(doc)

    def P(n):
        if n is None:
            return None
        return pos.get(id(n), ('?', n.stage))

    stages = []
    for st in doc.tree.stages:
        row = []
        for n in st:
            sig = tuple((k, P(v)) for k, v in n.last_signature_nodes.nodes.items()) if n.last_signature_nodes else None
            row.append((n.stage, P(n.parent), tuple(P(c) for c in n.children), P(n.header_node),
                        P(n.last_spine_operator_node), sig, tok_fp(n.token)))
        stages.append(tuple(row))
    bbs = tuple(sorted((str(k), v.from_measure, v.to_measure, v.bounding_box.from_x, v.bounding_box.from_y,
                        v.bounding_box.to_x, v.bounding_box.to_y) for k, v in doc.page_bounding_boxes.items()))
    return (tuple(stages), tuple(doc.measure_start_tree_stages), doc.header_stage, bbs, P(doc.tree.root))


def constants_fp():
    from kernpy.core import transposer as TR, pitch_models as PM, tokens as TK

    def hier(d):
        return tuple((k.name, hier(v)) for k, v in d.items())
    return {
        'HEADERS': tuple(sorted(TK.HEADERS)),
        'CORE_HEADERS': tuple(sorted(TK.CORE_HEADERS)),
        'SPINE_OPERATIONS': tuple(sorted(TK.SPINE_OPERATIONS)),
        'BEKERN_CATEGORIES': tuple(sorted(c.name for c in TK.BEKERN_CATEGORIES)),
        'NON_CORE_CATEGORIES': tuple(sorted(c.name for c in TK.NON_CORE_CATEGORIES)),
        'hierarchy': hier(TK.TokenCategoryHierarchyMapper.hierarchy),
        'Chromas': tuple(PM.Chromas.items()),
        'ChromasByValue': tuple(PM.ChromasByValue.items()),
        'Intervals': tuple(TR.Intervals.items()),
        'IntervalsByName': tuple(TR.IntervalsByName.items()),
        'AVAILABLE_INTERVALS': tuple(TR.AVAILABLE_INTERVALS),
        'HEADERS_len': len(TK.HEADERS),
    }


def tree_shape_problems(doc):
    """Structural invariant of the spine tree at the return of an import (DESIGN 3, 'tree shape')."""
    probs = []
    tree = doc.tree
    if not tree.stages or tree.stages[0] != [tree.root] or len(tree.stages[0]) != 1:
        probs.append('stage 0 is not [root]')
    seen = {}
    for si, st in enumerate(tree.stages):
        if not st:
            probs.append(f'stage {si} is empty')
        for ni, n in enumerate(st):
            if id(n) in seen:
                probs.append(f'node at stage {si} index {ni} also listed at {seen[id(n)]}')
            seen[id(n)] = (si, ni)
            if n.stage != si:
                probs.append(f'node.stage={n.stage} but listed in stage {si}')
    for si, st in enumerate(tree.stages):
        for ni, n in enumerate(st):
            if si == 0:
                continue
            par = n.parent
            if par is None or id(par) not in seen:
                probs.append(f'({si},{ni}) parent missing from the stages')
                continue
            if seen[id(par)][0] >= si:
                probs.append(f'({si},{ni}) parent in stage {seen[id(par)][0]} is not earlier')
            cnt = sum(1 for c in par.children if c is n)
            if cnt != 1:
                probs.append(f'({si},{ni}) listed {cnt} times among its parent\'s children')
            hn = n.header_node
            if isinstance(n.token, T.MetacommentToken):
                continue
            if hn is None or not isinstance(hn.token, T.HeaderToken):
                probs.append(f'({si},{ni}) has no header node')
            else:
                a = n
                ok = False
                while a is not None:
                    if a is hn:
                        ok = True
                        break
                    a = a.parent
                if not ok:
                    probs.append(f'({si},{ni}) header node is not an ancestor-or-self')
    for si, st in enumerate(tree.stages):
        for ni, n in enumerate(st):
            for c in n.children:
                if c.parent is not n:
                    probs.append(f'child of ({si},{ni}) has a different parent link')
    return probs


# ---- the same export through ONE long-lived ExportOptions object ------------------------------------------------------
OPT_FIELDS = ('spine_types', 'token_categories', 'from_measure', 'to_measure', 'kern_type', 'instruments',
              'show_measure_numbers', 'spine_ids')


def _freeze(v):
    if isinstance(v, (set, frozenset)):
        return ('set', tuple(sorted(map(str, v))))
    if isinstance(v, (list, tuple)):
        return (type(v).__name__, tuple(map(str, v)))
    return v


_LONG_EXPORTER = [None]


def long_exporter():
    """One kernpy.Exporter object that lives as long as the process - the caller who builds an exporter once and uses it for every
    score and every selection (the functions of the package build one per call)."""
    if _LONG_EXPORTER[0] is None:
        _LONG_EXPORTER[0] = kp.Exporter()
    return _LONG_EXPORTER[0]


def export_with(doc, options, n):
    """The n-th export through an options object: through the package function or through the long-lived Exporter object, in turn."""
    if n % 2:
        return long_exporter().export_string(doc, options)
    return kp.export(doc, options)


class SharedOptions:
    """One ExportOptions object that lives as long as a run - the caller who builds his options once and keeps using them.
    Before a use only the fields whose WANTED value differs from the value assigned last time are assigned (values come from
    kernpy's own keyword parser); a selection that stays the same keeps the same container OBJECT, a new selection rotates
    the container form (set / list / tuple).  Whatever an export writes into the object therefore stays there for the next
    use, as it would for that caller.  The export through the object must equal the export through keywords; that the object
    comes back unchanged is C14's statement and is only reported as a diagnostic here (`prob`)."""

    def __init__(self):
        self.o = kp.ExportOptions()
        self.uses = 0
        self.forms = 0
        self.last = {}

    @staticmethod
    def _value(v):
        if isinstance(v, (set, frozenset)):
            return ('unordered', tuple(sorted(map(str, v))))
        if isinstance(v, (list, tuple)):
            return ('ordered', tuple(map(str, v)))
        return ('scalar', v)

    def export(self, doc, **kw):
        """-> (text, exception, diagnostic or None).  kw in the vocabulary of dumps()."""
        from kernpy.core.generic import Generic
        kw2 = dict(kw)
        if 'encoding' in kw2:
            kw2['kern_type'] = kw2.pop('encoding')
        fresh = Generic.parse_options_to_ExportOptions(**kw2)
        for f in OPT_FIELDS:
            new = getattr(fresh, f)
            val = self._value(new)
            if self.last.get(f, ('unset',)) == val:
                continue            # unchanged since the last use: the caller does not touch the field
            self.last[f] = val
            if isinstance(new, (set, frozenset, list, tuple)):
                self.forms += 1
                if f == 'token_categories':
                    new = [set, list, tuple][self.forms % 3](sorted(new, key=lambda c: c.name))
                elif isinstance(new, (list, tuple)):
                    new = [list, tuple][self.forms % 2](new)
            setattr(self.o, f, new)
        before = {f: _freeze(getattr(self.o, f)) for f in OPT_FIELDS}
        self.uses += 1
        try:
            out, exc = export_with(doc, self.o, self.uses), None
        except Exception as e:  # noqa
            out, exc = None, e
        after = {f: _freeze(getattr(self.o, f)) for f in OPT_FIELDS}
        changed = [f for f in OPT_FIELDS if before[f] != after[f]]
        prob = None
        if changed:
            prob = ('the export wrote into the options object: ' +
                    ', '.join(f'{f}: {before[f]!r} -> {after[f]!r}'[:120] for f in changed))
        return out, exc, prob

    def reset(self):
        self.o = kp.ExportOptions()
        self.last = {}


def same_outcome(a_text, a_exc, b_text, b_exc):
    if (a_exc is None) != (b_exc is None):
        return False
    if a_exc is not None:
        return type(a_exc) is type(b_exc)
    return a_text == b_text


_SHARED = None


def shared_options_check(ctx, doc, kw, ref_text, ref_exc, case, key='options-object'):
    """The export `kw` of `doc` again through the process-wide long-lived ExportOptions object (kp.export): same outcome as the
    keyword call (ref_text / ref_exc).  What the export writes into the object is left in it (and counted): it shows when it
    changes a later result."""
    global _SHARED
    if _SHARED is None:
        _SHARED = SharedOptions()
    ctx.mon('exports_through_shared_options_object')
    try:
        out, exc, prob = _SHARED.export(doc, **kw)
    except Exception as e:  # noqa  (kernpy's keyword parser itself refused the keywords: nothing to compare)
        ctx.mon(f'shared_options_keywords_refused:{type(e).__name__}')
        return True
    ok = True
    if prob:
        ctx.mon('options_object_written_by_export (C14 decides)')
        _SHARED.notes = prob
    if not same_outcome(ref_text, ref_exc, out, exc):
        ctx.violation(key, f'export through a long-lived ExportOptions object (use #{_SHARED.uses}) '
                      f'{"raised " + type(exc).__name__ + ": " + str(exc)[:80] if exc is not None else "returned " + str(len(out)) + " chars"}, '
                      f'the keyword call {"raised " + type(ref_exc).__name__ if ref_exc is not None else "returned " + str(len(ref_text)) + " chars"} '
                      f'for {str(kw)[:160]}' + (f'; {getattr(_SHARED, "notes", "")[:200]}' if getattr(_SHARED, 'notes', None) else ''),
                      dict(case, options=str(kw)))
        ok = False
        _SHARED.reset()       # start again from a clean object so that one divergence is not inherited by every later use
        _SHARED.notes = None
    return ok


_FIXED = {}


def fixed_options_check(ctx, doc, kw, ref_text, ref_exc, case, key='options-object'):
    """One ExportOptions object per distinct option set `kw` (dumps vocabulary), built the first time the set is seen and never
    touched again by the harness - "the first two measures of every score of the corpus".  Same outcome as the keyword call."""
    from kernpy.core.generic import Generic
    k = repr(sorted((a, SharedOptions._value(b)) for a, b in kw.items()))
    if k not in _FIXED:
        kw2 = dict(kw)
        if 'encoding' in kw2:
            kw2['kern_type'] = kw2.pop('encoding')
        try:
            _FIXED[k] = [Generic.parse_options_to_ExportOptions(**kw2), 0]
        except Exception as e:  # noqa
            ctx.mon(f'fixed_options_keywords_refused:{type(e).__name__}')
            return True
    ent = _FIXED[k]
    ent[1] += 1
    ctx.mon('exports_through_fixed_options_objects')
    try:
        out, exc = export_with(doc, ent[0], ent[1]), None
    except Exception as e:  # noqa
        out, exc = None, e
    if same_outcome(ref_text, ref_exc, out, exc):
        return True
    ctx.violation(key, f'export #{ent[1]} through an ExportOptions object built once for {str(kw)[:120]} and reused for every document '
                  f'{"raised " + type(exc).__name__ + ": " + str(exc)[:80] if exc is not None else "returned " + str(len(out)) + " chars"}, '
                  f'the keyword call {"raised " + type(ref_exc).__name__ if ref_exc is not None else "returned " + str(len(ref_text)) + " chars"}',
                  dict(case, options=str(kw), reused_fixed_options=True))
    del _FIXED[k]
    return False
