"""Reference model of the documented category forest (copied from README.md, 'Tree:' block).

Pure data + set algebra over *names*; never calls kernpy.
"""
from __future__ import annotations

README_TREE = """\
.
├── STRUCTURAL
│   ├── HEADER
│   └── SPINE_OPERATION
├── CORE
│   ├── NOTE_REST
│   │   ├── DURATION
│   │   ├── NOTE
│   │   │   ├── PITCH
│   │   │   ├── DECORATION
│   │   │   └── ALTERATION
│   │   └── REST
│   ├── CHORD
│   ├── EMPTY
│   └── ERROR
├── SIGNATURES
│   ├── CLEF
│   ├── TIME_SIGNATURE
│   ├── METER_SYMBOL
│   ├── KEY_SIGNATURE
│   └── KEY_TOKEN
├── ENGRAVED_SYMBOLS
├── OTHER_CONTEXTUAL
├── BARLINES
├── COMMENTS
│   ├── FIELD_COMMENTS
│   └── LINE_COMMENTS
├── DYNAMICS
├── HARMONY
├── FINGERING
├── LYRICS
├── INSTRUMENTS
├── IMAGE_ANNOTATIONS
│   ├── BOUNDING_BOXES
│   └── LINE_BREAK
├── OTHER
├── MHXM
└── ROOT
"""


def parse_tree_text(text: str, strip_prefix: str = ''):
    """Parse the output format of the Unix `tree` command into {name: parent-or-None}, preserving order.

    Raises ValueError on a malformed drawing or a name that occurs twice.
    """
    parent = {}
    order = []
    stack = []  # names by depth
    lines = text.strip('\n').split('\n')
    if not lines or lines[0].strip() != '.':
        raise ValueError('tree text must start with "."')
    for ln in lines[1:]:
        if not ln.strip():
            continue
        # each level is 4 characters wide: '│   ' or '    ' then '├── ' / '└── '
        idx = None
        for mark in ('├── ', '└── '):
            j = ln.find(mark)
            if j >= 0:
                idx = j
                break
        if idx is None or idx % 4 != 0:
            raise ValueError(f'bad tree line: {ln!r}')
        depth = idx // 4
        name = ln[idx + 4:].strip()
        if strip_prefix and name.startswith(strip_prefix):
            name = name[len(strip_prefix):]
        if name in parent:
            raise ValueError(f'category {name} occurs twice')
        if depth > len(stack):
            raise ValueError(f'bad indentation: {ln!r}')
        stack = stack[:depth]
        parent[name] = stack[-1] if stack else None
        stack.append(name)
        order.append(name)
    return parent, order


PARENT, ORDER = parse_tree_text(README_TREE)
ALL = frozenset(ORDER)
assert len(ORDER) == 37

CHILDREN = {n: [] for n in ORDER}
for _n in ORDER:
    if PARENT[_n] is not None:
        CHILDREN[PARENT[_n]].append(_n)
ROOTS = [n for n in ORDER if PARENT[n] is None]


def descendants(name):
    """Strict descendants."""
    out = set()
    todo = list(CHILDREN[name])
    while todo:
        x = todo.pop()
        out.add(x)
        todo.extend(CHILDREN[x])
    return out


DESC = {n: frozenset(descendants(n)) for n in ORDER}


def closure(names):
    out = set()
    for n in names:
        out.add(n)
        out |= DESC[n]
    return out


def leaves(name):
    return {n for n in DESC[name] if not CHILDREN[n]}


def is_child(child, parent):
    """Descendant-or-self, as kernpy documents ('If parent is the same as child, return True')."""
    return child == parent or child in DESC[parent]


def valid(include=None, exclude=None):
    inc = set(ALL) if include is None else closure(include)
    exc = set() if exclude is None else closure(exclude)
    return inc - exc


def match(cat, include=None, exclude=None):
    sel = valid(include, exclude)
    return bool(({cat} | DESC[cat]) & sel)
