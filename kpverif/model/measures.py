"""Reference model of measures: partition of the lines of an abstract document by its barline rows.
Never calls kernpy.

Measure 1 starts at the first barline row, or - if a row containing a note, rest, chord or null token ('.' or '*')
precedes the first barline - at that row (kernpy's documented behaviour for scores with a pickup or without an opening
barline); every later barline row starts the next measure.
"""
from __future__ import annotations

CORE_KINDS = ('note', 'rest', 'chord', 'null', 'nullinterp')


def measure_starts(doc, spines=None):
    """-> list of line indices where a measure starts (index into doc.lines)."""
    starts = []
    header_seen = False
    for li, ln in enumerate(doc.lines):
        if ln.kind in ('g', 'b'):
            continue
        if ln.kind == 'header':
            header_seen = True
            continue
        if not header_seen:
            continue
        if ln.kind == 'bar':
            starts.append(li)
        elif not starts and any(c.kind in CORE_KINDS for c in ln.cells):
            starts.append(li)
    return starts


def measure_of_line(doc):
    """line index -> measure number (0 before the first measure)."""
    starts = measure_starts(doc)
    out = {}
    m = 0
    si = 0
    for li in range(len(doc.lines)):
        while si < len(starts) and starts[si] <= li:
            m += 1
            si += 1
        out[li] = m
    return out
