"""Reference spine-path model (Humdrum spine-path rules), written from the Humdrum syntax description.

Never calls kernpy.  Input: a list of lines, each either
    ('g', text)        global comment ("!!...")        - not part of any spine
    ('b',)             blank line
    ('s', [cells])     a tab-structured line (header, interpretation, data, barline, local comment, operators)
Output of track(): for every line an Info with, for structured lines, per cell the 0-based spine id and the
(line index, column) of the cell above it on the same spine path (None for header cells).

Rules: `*^` gives two paths (both below the split cell); a maximal run of adjacent `*v` cells that belong to the
same spine merges into one path below the FIRST cell of the run; `*-` ends a path; every other cell continues
its path.  The cell above a cell is taken from the nearest earlier structured line (global comments and blank
lines are skipped).
"""
from __future__ import annotations

from dataclasses import dataclass, field
from typing import List, Optional, Tuple

SPLIT, JOIN, TERM = '*^', '*v', '*-'
OPS = (SPLIT, JOIN, TERM)


class SpineError(Exception):
    pass


@dataclass
class Info:
    kind: str                       # 'g', 'b', 'header', 'op', 'row'
    spine: List[int] = field(default_factory=list)          # per cell
    above: List[Optional[Tuple[int, int]]] = field(default_factory=list)  # per cell: (line, col) of the cell above
    out: List[Tuple[int, int]] = field(default_factory=list)   # live paths after this line: (spine, col of this line)


def next_paths(cells, spines):
    """cells of an operator (or any) line + spine id per cell -> list of (spine, source col) for the next line."""
    out = []
    n = len(cells)
    for i, c in enumerate(cells):
        if c == SPLIT:
            out.append((spines[i], i))
            out.append((spines[i], i))
        elif c == TERM:
            continue
        elif c == JOIN:
            if i > 0 and cells[i - 1] == JOIN and spines[i - 1] == spines[i]:
                continue  # merged into the first cell of the run
            out.append((spines[i], i))
        else:
            out.append((spines[i], i))
    return out


def track(lines, strict=True) -> List[Info]:
    infos: List[Info] = []
    live: Optional[List[Tuple[int, int]]] = None  # (spine, col in prev structured line)
    prev_line = None
    for li, ln in enumerate(lines):
        if ln[0] == 'g':
            infos.append(Info('g'))
            continue
        if ln[0] == 'b':
            infos.append(Info('b'))
            continue
        cells = ln[1]
        if live is None:
            if not all(c.startswith('**') for c in cells):
                raise SpineError(f'line {li}: first structured line is not a header: {cells}')
            info = Info('header', spine=list(range(len(cells))), above=[None] * len(cells))
            info.out = [(i, i) for i in range(len(cells))]
        else:
            if strict and len(cells) != len(live):
                raise SpineError(f'line {li}: {len(cells)} cells but {len(live)} live spine paths')
            spines = [live[i][0] if i < len(live) else -1 for i in range(len(cells))]
            above = [(prev_line, live[i][1]) if i < len(live) else None for i in range(len(cells))]
            is_op = any(c in OPS for c in cells)
            if strict and is_op:
                # a join needs at least two adjacent *v of the same spine
                i = 0
                while i < len(cells):
                    if cells[i] == JOIN:
                        j = i
                        while j + 1 < len(cells) and cells[j + 1] == JOIN and spines[j + 1] == spines[i]:
                            j += 1
                        if j == i:
                            raise SpineError(f'line {li}: lone *v in column {i}')
                        i = j + 1
                    else:
                        i += 1
            info = Info('op' if is_op else 'row', spine=spines, above=above)
            info.out = next_paths(cells, spines)
        infos.append(info)
        live = info.out
        prev_line = li
    return infos


def dfs_order(lines, infos):
    """Expected token listing order (C17): list of ('g', line) / ('c', line, col).

    Pre-header global comments form a chain from the root; the header cells hang off the last of them (or the
    root); every later global comment continues that same chain, after all spines.
    """
    children = {}
    header_line = None
    for li, info in enumerate(infos):
        if info.kind in ('g', 'b'):
            continue
        if info.kind == 'header':
            header_line = li
        for col, ab in enumerate(info.above):
            if ab is not None:
                children.setdefault(ab, []).append((li, col))
    order = []
    for li, info in enumerate(infos):
        if info.kind == 'g' and (header_line is None or li < header_line):
            order.append(('g', li))
    if header_line is not None:
        for col in range(len(infos[header_line].spine)):
            stack = [(header_line, col)]
            while stack:
                node = stack.pop()
                order.append(('c',) + node)
                stack.extend(reversed(children.get(node, [])))
        for li, info in enumerate(infos):
            if info.kind == 'g' and li > header_line:
                order.append(('g', li))
    return order
