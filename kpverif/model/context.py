"""Signature context (clef / key signature / meter in force) for every cell of an abstract document, computed from the
spine-path model only.  A cell inherits the context of the cell above it on its spine path; a signature cell
updates it from that cell on."""
from __future__ import annotations

KINDS = {'clef': 'clef', 'keysig': 'keysig', 'meter': 'meter', 'metersym': 'metersym'}


def contexts(doc):
    """-> dict (line, col) -> dict(clef=..., keysig=..., meter=..., metersym=...) (values: cell text or None)"""
    infos = doc.infos()
    ctx = {}
    for li, (ln, info) in enumerate(zip(doc.lines, infos)):
        if ln.kind in ('g', 'b'):
            continue
        for col, c in enumerate(ln.cells):
            ab = info.above[col]
            base = dict(ctx[ab]) if ab is not None else {'clef': None, 'keysig': None, 'meter': None, 'metersym': None}
            if c.kind in KINDS:
                base[KINDS[c.kind]] = c.text
            ctx[(li, col)] = base
    return ctx


def all_notes_have_clef(doc, spines=None):
    cx = contexts(doc)
    for li, ln in enumerate(doc.lines):
        if ln.kind != 'data':
            continue
        for col, c in enumerate(ln.cells):
            if c.kind in ('note', 'chord') and (spines is None or c.spine in spines):
                if cx[(li, col)]['clef'] is None:
                    return False
    return True
