"""Reference letter/semitone arithmetic for pitches and named intervals.  Never calls kernpy."""
from __future__ import annotations

LETTERS = 'CDEFGAB'
BASE_SEMI = {'C': 0, 'D': 2, 'E': 4, 'F': 5, 'G': 7, 'A': 9, 'B': 11}
_MAJOR_PERFECT = {1: 0, 2: 2, 3: 4, 4: 5, 5: 7, 6: 9, 7: 11}
_PERFECT = {1, 4, 5}


def interval_table():
    """name -> (diatonic steps, semitones) for the 40 named intervals."""
    out = {}
    for n in range(1, 8):
        if n in _PERFECT:
            quals = {'dd': -2, 'd': -1, 'P': 0, 'A': 1, 'AA': 2}
        else:
            quals = {'dd': -3, 'd': -2, 'm': -1, 'M': 0, 'A': 1, 'AA': 2}
        for q, off in quals.items():
            out[f'{q}{n}'] = (n - 1, _MAJOR_PERFECT[n] + off)
    out['octave'] = (7, 12)
    return out


INTERVALS = interval_table()
assert len(INTERVALS) == 40


def transpose(letter: str, alt: int, octave: int, name: str, up: bool):
    """-> (letter, alt, octave) of the exact result (alt may exceed +-2: then it is 'unspellable')."""
    steps, semis = INTERVALS[name]
    if not up:
        steps, semis = -steps, -semis
    idx = octave * 7 + LETTERS.index(letter) + steps
    n_oct, n_li = divmod(idx, 7)
    n_letter = LETTERS[n_li]
    src = 12 * octave + BASE_SEMI[letter] + alt
    tgt = src + semis
    n_alt = tgt - (12 * n_oct + BASE_SEMI[n_letter])
    return n_letter, n_alt, n_oct


def spell(letter: str, alt: int, octave: int) -> str:
    """Humdrum spelling: c = C4, cc = C5, C = C3, CC = C2; '#' sharps, '-' flats."""
    if octave >= 4:
        body = letter.lower() * (octave - 3)
    else:
        body = letter.upper() * (4 - octave)
    return body + ('#' * alt if alt > 0 else '-' * (-alt))


def unspell(s: str):
    """Inverse of spell for strings made of one repeated letter followed by #/- accidentals."""
    body = s.rstrip('#-')
    acc = s[len(body):]
    if not body or len(set(body)) != 1 or body[0].upper() not in LETTERS:
        raise ValueError(s)
    if acc and len(set(acc)) != 1:
        raise ValueError(s)
    alt = len(acc) if acc.startswith('#') else -len(acc)
    if body[0].islower():
        octave = 3 + len(body)
    else:
        octave = 4 - len(body)
    return body[0].upper(), alt, octave
