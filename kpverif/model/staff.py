"""Reference staff-position model.  Never calls kernpy.

A pitch is (letter, octave); its diatonic index is octave*7 + letter index (C=0).  Under a clef whose bottom
line carries pitch B, the staff position of pitch P is idx(P) - idx(B) steps above the bottom line.  The
agnostic spelling is the Humdrum pitch at the same position under a G2 clef, whose bottom line is e (E4).
"""
from __future__ import annotations

from .intervals import LETTERS, spell

G2_BOTTOM = ('E', 4)

# Bottom-line pitch of each supported clef, from standard music theory (line 1 of a 5-line staff):
#   G2 treble: E4;  F4 bass: G2;  F3 baritone: B2;  C1 soprano: C4;  C2 mezzo: A3;  C3 alto: F3;  C4 tenor: D3
THEORY_BOTTOM = {'G2': ('E', 4), 'F4': ('G', 2), 'F3': ('B', 2), 'C1': ('C', 4), 'C2': ('A', 3), 'C3': ('F', 3),
                 'C4': ('D', 3)}


def didx(letter, octave):
    return octave * 7 + LETTERS.index(letter)


def from_didx(i):
    o, l = divmod(i, 7)
    return LETTERS[l], o


def agnostic(letter, alt, octave, bottom):
    """Agnostic Humdrum spelling of the pitch under a clef whose bottom line is `bottom` (letter, octave)."""
    k = didx(letter, octave) - didx(*bottom)
    l, o = from_didx(didx(*G2_BOTTOM) + k)
    return spell(l, alt, o)
