"""Stand-alone Humdrum well-formedness validator and signature-context tracker, working on TEXT only.
Never calls kernpy (whose importer accepts short lines and unterminated spines)."""
from __future__ import annotations

import re

RE_METER = re.compile(r'^\*M\d')


def split_lines(text):
    lines = text.split('\n')
    if lines and lines[-1] == '':
        lines = lines[:-1]
    return lines


def line_kind(cells):
    c0 = cells[0]
    if c0.startswith('**'):
        return 'header'
    if c0.startswith('*'):
        return 'interp'
    if c0.startswith('='):
        return 'bar'
    if c0.startswith('!'):
        return 'comment'
    return 'data'


def validate(text, uniform_line_types=False):
    """-> list of problems (empty = well-formed): header first, cell count per line consistent with the spine
    operators, every path terminated, nothing after the terminators (uniform line types only on request: the property does not
    state it)."""
    probs = []
    lines = split_lines(text)
    if not lines:
        return ['empty text']
    width = None
    terminated = False
    seen_header = False
    for i, ln in enumerate(lines, 1):
        if ln == '':
            probs.append(f'line {i}: empty line')
            continue
        if ln.startswith('!!'):
            continue
        cells = ln.split('\t')
        if any(c == '' for c in cells):
            probs.append(f'line {i}: empty cell')
        if not seen_header:
            if not all(c.startswith('**') for c in cells):
                probs.append(f'line {i}: first line is not a header line: {cells}')
                return probs
            seen_header = True
            width = len(cells)
            continue
        if terminated:
            probs.append(f'line {i}: content after all spines were terminated')
            continue
        if any(c.startswith('**') for c in cells):
            probs.append(f'line {i}: second header line')
        if len(cells) != width:
            probs.append(f'line {i}: {len(cells)} cells for {width} live spine paths')
            return probs
        kinds = {('interp' if c.startswith('*') else 'bar' if c.startswith('=') else 'comment' if c.startswith('!') else 'data')
                 for c in cells}
        if uniform_line_types and len(kinds) > 1:
            probs.append(f'line {i}: mixed line types {sorted(kinds)}: {cells}')
        if any(c in ('*^', '*v', '*-', '*+', '*x') for c in cells):
            new = 0
            j = 0
            while j < len(cells):
                c = cells[j]
                if c == '*^':
                    new += 2
                elif c == '*-':
                    pass
                elif c == '*v':
                    k = j
                    while k + 1 < len(cells) and cells[k + 1] == '*v':
                        k += 1
                    if k == j:
                        probs.append(f'line {i}: lone *v')
                    new += 1
                    j = k
                else:
                    new += 1
                j += 1
            width = new
            if width == 0:
                terminated = True
    if not seen_header:
        probs.append('no header line')
    elif not terminated:
        probs.append('spines are not terminated at the end')
    return probs


def note_contexts(text):
    """-> list of (line number, [context per cell]) for every data line; context = (clef, key signature, meter) tokens in
    force on that cell's spine path (None when none yet).  Paths: *^ copies, a run of *v keeps the first, *- ends."""
    out = []
    paths = None
    for i, ln in enumerate(split_lines(text), 1):
        if ln == '' or ln.startswith('!!'):
            continue
        cells = ln.split('\t')
        if paths is None:
            paths = [{'clef': None, 'key': None, 'meter': None} for _ in cells]
            continue
        if len(cells) != len(paths):
            return None  # malformed; validate() reports it
        k = line_kind(cells)
        if k == 'interp':
            if any(c in ('*^', '*v', '*-') for c in cells):
                new = []
                j = 0
                while j < len(cells):
                    c = cells[j]
                    if c == '*^':
                        new.append(dict(paths[j]))
                        new.append(dict(paths[j]))
                    elif c == '*-':
                        pass
                    elif c == '*v':
                        new.append(dict(paths[j]))
                        while j + 1 < len(cells) and cells[j + 1] == '*v':
                            j += 1
                    else:
                        new.append(paths[j])
                    j += 1
                paths = new
            else:
                for c, p in zip(cells, paths):
                    if c.startswith('*clef'):
                        p['clef'] = c
                    elif c.startswith('*k[') or c == '*kcancel':
                        p['key'] = c
                    elif RE_METER.match(c):
                        p['meter'] = c
        elif k == 'data':
            out.append((i, [(p['clef'], p['key'], p['meter']) for p in paths]))
    return out


def project(text, keep):
    """Text-level column projection: delete the columns that descend from the header cells whose index is not in `keep`
    (through splits and joins), drop the lines left empty or all-null.  -> projected text, or None when the text is not
    trackable (cell count inconsistent with its own spine operators)."""
    out = []
    owner = None
    for ln in split_lines(text):
        if ln.startswith('!!') or ln == '':
            continue
        cells = ln.split('\t')
        if owner is None:
            if not all(c.startswith('**') for c in cells):
                return None
            owner = list(range(len(cells)))
        elif len(cells) != len(owner):
            return None
        kept = [c for c, o in zip(cells, owner) if o in keep]
        if kept and not all(c in ('.', '*', '') for c in kept):
            out.append('\t'.join(kept))
        if any(c in ('*^', '*v', '*-') for c in cells) and not all(c.startswith('**') for c in cells):
            new = []
            j = 0
            while j < len(cells):
                c = cells[j]
                if c == '*^':
                    new += [owner[j], owner[j]]
                elif c == '*-':
                    pass
                elif c == '*v':
                    k = j
                    while k + 1 < len(cells) and cells[k + 1] == '*v' and owner[k + 1] == owner[j]:
                        k += 1
                    new.append(owner[j])
                    j = k
                else:
                    new.append(owner[j])
                j += 1
            owner = new
    return ''.join(l + '\n' for l in out)
