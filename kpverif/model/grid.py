"""Reference grid model: what the export of an abstract document must look like, and the three single-option
transformations (encoding view, category filter, spine projection) as pure functions on annotated grids.
Never calls kernpy."""
from __future__ import annotations

import re
from dataclasses import dataclass
from typing import List, Optional

from . import cattree as CT

NULLS = ('.', '*')
RE_PITCH = re.compile(r'^([a-g]+|[A-G]+)$')
RE_PITCH_ACC = re.compile(r'^([a-g]+|[A-G]+)(#{1,3}|-{1,3})$')
RE_ALT = re.compile(r'^(#{1,3}|-{1,3}|n)([xXiIjZ]|yy?|YY?)?$')
RE_DUR_NUM = re.compile(r'^\d+(%\d+)?$')
NOTE_KINDS = ('note', 'rest', 'chord')


@dataclass
class ECell:
    kind: str
    text: str            # expected default (kern) export text when exact, else None
    obj: object = None
    spine: int = -1
    line: int = -1
    col: int = -1
    accept: Optional[set] = None   # alternative acceptable texts


def bar_encoding(obj):
    """Token encoding of a barline (what the tree holds): type without the number and without the invisibility mark."""
    base = obj['eq'] + obj['type'] + obj['fermata'] + obj.get('suffix', '')
    acc = {base}
    if obj['type'] == ':!:':
        acc.add(obj['eq'] + ':|!|:' + obj['fermata'] + obj.get('suffix', ''))
    return base, acc


def bar_expected(obj):
    """Exported text of a barline.  An invisible barline (=-) is exported as a null by kernpy's hidden flag; only the
    measure-structure workloads generate them (DESIGN 2.2)."""
    if obj.get('hidden'):
        return '.', {'.'}
    base = obj['eq'] + obj['type'] + obj['fermata'] + obj.get('suffix', '')
    acc = {base}
    if obj['type'] == ':!:':
        acc.add(obj['eq'] + ':|!|:' + obj['fermata'] + obj.get('suffix', ''))
    return base, acc


def expected_rows(doc, hidden_as_null=True) -> List[List[ECell]]:
    """One row per structured line (before null-row suppression).  hidden_as_null=False: invisible barlines are expected as
    written barlines (for oracles that take the real export as their reference and do not judge that rule)."""
    doc.infos()
    rows = []
    for li, ln in enumerate(doc.lines):
        if ln.kind in ('g', 'b'):
            continue
        row = []
        for col, c in enumerate(ln.cells):
            if c.kind == 'bar':
                base, acc = bar_expected(c.obj) if hidden_as_null else bar_encoding(c.obj)
                row.append(ECell('bar', base, c.obj, c.spine, li, col, acc))
            elif c.kind in NOTE_KINDS:
                row.append(ECell(c.kind, c.obj.canonical_kern(), c.obj, c.spine, li, col))
            else:
                row.append(ECell(c.kind, c.text, c.obj, c.spine, li, col))
        rows.append(row)
    return rows


def is_null_row(texts):
    return all(t in NULLS or t == '' for t in texts)


def suppress(rows):
    """rows of ECell -> rows kept by null-row suppression (decided on the expected texts)."""
    return [r for r in rows if not is_null_row([c.text for c in r])]


# ---- note cells in the extended encoding ---------------------------------------------------------------
def classify_part(p):
    if p == 'r':
        return 'REST'
    if RE_PITCH.match(p) or RE_PITCH_ACC.match(p):
        # (a document produced by to_transposed keeps letters and accidental in ONE pitch sub-token: 'aa-', 'F#')
        return 'PITCH'
    if RE_ALT.match(p):
        return 'ALTERATION'
    return 'DURATION'


def parse_enote(text):
    """'4@.@c@#·L·^' -> dict(pd=[(part, category)], dec=[...]) ; tolerant (never raises)."""
    pd_txt, sep, dec_txt = text.partition('·')
    pd = [p for p in pd_txt.split('@')] if pd_txt != '' else []
    dec = dec_txt.split('·') if sep else []
    return {'pd': [(p, classify_part(p)) for p in pd], 'dec': dec}


def note_problems(text, note, union=None):
    """Compare an exported extended note with the abstract note.  union: chord's signifier union or None."""
    pr = parse_enote(text)
    probs = []
    durs = sorted(p for p, c in pr['pd'] if c == 'DURATION')
    if durs != sorted(note.dur_parts()):
        probs.append(f'duration marks {durs} != {sorted(note.dur_parts())}')
    if note.rest:
        if [p for p, c in pr['pd'] if c == 'REST'] != ['r']:
            probs.append('rest character missing')
        if any(c in ('PITCH', 'ALTERATION') for _, c in pr['pd']):
            probs.append('rest exported with a pitch')
    else:
        pit = [p for p, c in pr['pd'] if c == 'PITCH']
        if pit != [note.letters]:
            probs.append(f'pitch letters {pit} != {[note.letters]}')
        alt = [p for p, c in pr['pd'] if c == 'ALTERATION']
        if alt != ([note.acc] if note.acc else []):
            probs.append(f'accidental {alt} != {[note.acc] if note.acc else []}')
    dec = pr['dec']
    if len(dec) != len(set(dec)):
        probs.append(f'signifier repeated in the normal form: {dec}')
    own = set(note.all_sigs())
    if union is None:
        if set(dec) != own:
            probs.append(f'signifiers {sorted(dec)} != {sorted(own)}')
    else:
        if not own <= set(dec):
            probs.append(f'own signifiers {sorted(own)} not all kept: {sorted(dec)}')
        if not set(dec) <= set(union):
            probs.append(f'signifiers {sorted(set(dec) - set(union))} not written anywhere in the chord')
    if any(len(d) != 1 and d not in ('yy', '&(', '&)', 'Ww') and not (note.rest and RE_PITCH.match(d)) for d in dec):
        probs.append(f'signifier parts are not single characters: {dec}')
    return probs


def strip_separators(s):
    return s.replace('@', '').replace('·', '')


# ---- category filter on an extended cell -------------------------------------------------------------------
def filter_enote(text, selected):
    """Delete the sub-parts of one exported extended note whose category is not selected.
    Returns the comparable form: (list of kept pitch/duration parts, list of kept decorations)."""
    pr = parse_enote(text)
    pd = [p for p, c in pr['pd'] if c in selected]
    dec = [d for d in pr['dec'] if 'DECORATION' in selected]
    return pd, dec


def comparable_enote(text):
    """Observed filtered note -> (pd parts, decorations) ignoring a leading separator left by deleted parts."""
    if text in ('*', '.', ''):
        return [], []
    pd_txt, sep, dec_txt = text.partition('·')
    pd = [p for p in pd_txt.split('@') if p != ''] if pd_txt != '' else []
    dec = [d for d in dec_txt.split('·') if d != ''] if sep else []
    return pd, dec


# ---- annotated grid: the real unfiltered extended export + abstract knowledge + token categories from the tree -----------
@dataclass
class ACell:
    text: str        # unfiltered eKern cell text (real export)
    kind: str        # abstract kind
    cat: str         # token category name read from the tree
    spine: int
    line: int
    col: int
    obj: object = None


def annotate(doc, real_doc, ekern_text):
    """-> list of rows of ACell, or None if the real export does not have the expected shape (C03's business)."""
    lines = ekern_text.split('\n')
    if lines and lines[-1] == '':
        lines = lines[:-1]
    g = [ln.split('\t') for ln in lines] if ekern_text else []
    exp = suppress(expected_rows(doc))
    if (len(g) != len(exp) or any(len(a) != len(b) for a, b in zip(g, exp))) and 'hidden_barlines' in doc.tags:
        # the reference export kept the invisible barlines as lines: annotate it as it is (the oracles that use this grid
        # compare other exports with it; whether invisible barlines belong in an export is not their question)
        exp = suppress(expected_rows(doc, hidden_as_null=False))
    if len(g) != len(exp) or any(len(a) != len(b) for a, b in zip(g, exp)):
        return None
    nonblank = [i for i, ln in enumerate(doc.lines) if ln.kind != 'b']
    stage_of = {li: k + 1 for k, li in enumerate(nonblank)}
    out = []
    stages = real_doc.tree.stages
    for erow, grow in zip(exp, g):
        st = stages[stage_of[erow[0].line]]
        if len(st) != len(erow):
            return None
        row = []
        for e, t, node in zip(erow, grow, st):
            row.append(ACell(t, e.kind, node.token.category.name, e.spine, e.line, e.col, e.obj))
        out.append(row)
    return out


PLACEHOLDER = object()


def filter_cell(c: ACell, selected):
    """-> ('ph',) | ('verbatim', text) | ('note', pd, dec) | ('chord', [(pd, dec), ...])"""
    if c.kind in ('note', 'rest'):
        pd, dec = filter_enote(c.text, selected)
        return ('note', pd, dec)
    if c.kind == 'chord':
        if 'CHORD' not in selected:
            return ('ph',)
        return ('chord', [filter_enote(p, selected) for p in c.text.split(' ')])
    if c.cat in selected:
        return ('verbatim', c.text)
    return ('ph',)


def fcell_nullness(fc):
    """True: certainly null; False: certainly not; None: either (statement does not decide)."""
    if fc[0] == 'ph':
        return True
    if fc[0] == 'verbatim':
        return fc[1] in NULLS
    if fc[0] == 'note':
        return not fc[1] and not fc[2]
    if fc[0] == 'chord':
        if all(not pd and not dec for pd, dec in fc[1]):
            return None
        return False
    return False


def fcell_matches(fc, observed):
    if fc[0] == 'ph':
        return observed in NULLS
    if fc[0] == 'verbatim':
        return observed == fc[1]
    if fc[0] == 'note':
        pd, dec = comparable_enote(observed)
        if not fc[1] and not fc[2]:
            return observed in ('*', '.', '')
        return (pd, dec) == (fc[1], fc[2])
    if fc[0] == 'chord':
        parts = observed.split(' ')
        if len(parts) != len(fc[1]):
            return False
        for p, (pd, dec) in zip(parts, fc[1]):
            opd, odec = comparable_enote(p)
            if (opd, odec) != (pd, dec):
                return False
        return True
    return False


def filter_grid(agrid, selected):
    """-> list of (row of filtered cells, nullness) where nullness in (True, False, None)."""
    out = []
    for row in agrid:
        frow = [filter_cell(c, selected) for c in row]
        ns = [fcell_nullness(f) for f in frow]
        if all(n is True for n in ns):
            nul = True
        elif any(n is False for n in ns):
            nul = False
        else:
            nul = None
        out.append((frow, nul))
    return out


def match_filtered(fgrid, observed_grid):
    """Greedy row matching; rows with nullness True must be absent, False present, None either.
    -> None if it matches, else a description of the first disagreement."""
    j = 0
    for i, (frow, nul) in enumerate(fgrid):
        if nul is True:
            continue
        if j < len(observed_grid) and len(observed_grid[j]) == len(frow) and \
                all(fcell_matches(f, o) for f, o in zip(frow, observed_grid[j])):
            j += 1
            continue
        if nul is None:
            continue
        got = observed_grid[j] if j < len(observed_grid) else '<end of export>'
        return f'model row {i + 1} {describe_frow(frow)} vs exported line {j + 1}: {got}'
    if j != len(observed_grid):
        return f'exported line {j + 1} {observed_grid[j]} has no counterpart in the model (extra line)'
    return None


def describe_frow(frow):
    out = []
    for f in frow:
        if f[0] == 'ph':
            out.append('<placeholder>')
        elif f[0] == 'verbatim':
            out.append(f[1])
        elif f[0] == 'note':
            out.append('@'.join(f[1]) + ('·' + '·'.join(f[2]) if f[2] else ''))
        else:
            out.append(' '.join('@'.join(pd) + ('·' + '·'.join(dec) if dec else '') for pd, dec in f[1]))
    return out


def project_rows(rows, keep, spine_of=lambda c: c.spine):
    out = []
    for r in rows:
        out.append([c for c in r if spine_of(c) in keep])
    return out
