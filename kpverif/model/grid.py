"""Reference grid model: what the export of an abstract document must look like, and the three single-option
transformations (encoding view, category filter, spine projection) as pure functions on annotated grids.
Never calls kernpy."""
from __future__ import annotations

import re
from dataclasses import dataclass
from typing import List, Optional

from . import cattree as CT

NULLS = ('.', '*')
RE_PITCH = re.compile(r'^([a-g]+|[A-G]+)$')
RE_ALT = re.compile(r'^(#{1,3}|-{1,3}|n)([xXiIjZ]|yy?|YY?)?$')
RE_DUR_NUM = re.compile(r'^\d+(%\d+)?$')
NOTE_KINDS = ('note', 'rest', 'chord')


@dataclass
class ECell:
    kind: str
    text: str            # expected default (kern) export text when exact, else None
    obj: object = None
    spine: int = -1
    line: int = -1
    col: int = -1
    accept: Optional[set] = None   # alternative acceptable texts


def bar_expected(obj):
    base = obj['eq'] + obj['type'] + obj['fermata']
    acc = {base}
    if obj['type'] == ':!:':
        acc.add(obj['eq'] + ':|!|:' + obj['fermata'])
    return base, acc


def expected_rows(doc) -> List[List[ECell]]:
    """One row per structured line (before null-row suppression)."""
    doc.infos()
    rows = []
    for li, ln in enumerate(doc.lines):
        if ln.kind in ('g', 'b'):
            continue
        row = []
        for col, c in enumerate(ln.cells):
            if c.kind == 'bar':
                base, acc = bar_expected(c.obj)
                row.append(ECell('bar', base, c.obj, c.spine, li, col, acc))
            elif c.kind in NOTE_KINDS:
                row.append(ECell(c.kind, c.obj.canonical_kern(), c.obj, c.spine, li, col))
            else:
                row.append(ECell(c.kind, c.text, c.obj, c.spine, li, col))
        rows.append(row)
    return rows


def is_null_row(texts):
    return all(t in NULLS or t == '' for t in texts)


def suppress(rows):
    """rows of ECell -> rows kept by null-row suppression (decided on the expected texts)."""
    return [r for r in rows if not is_null_row([c.text for c in r])]


# ---- note cells in the extended encoding ---------------------------------------------------------------
def classify_part(p):
    if p == 'r':
        return 'REST'
    if RE_PITCH.match(p):
        return 'PITCH'
    if RE_ALT.match(p):
        return 'ALTERATION'
    return 'DURATION'


def parse_enote(text):
    """'4@.@c@#·L·^' -> dict(pd=[(part, category)], dec=[...]) ; tolerant (never raises)."""
    pd_txt, sep, dec_txt = text.partition('·')
    pd = [p for p in pd_txt.split('@')] if pd_txt != '' else []
    dec = dec_txt.split('·') if sep else []
    return {'pd': [(p, classify_part(p)) for p in pd], 'dec': dec}


def note_problems(text, note, union=None):
    """Compare an exported extended note with the abstract note.  union: chord's signifier union or None."""
    pr = parse_enote(text)
    probs = []
    durs = sorted(p for p, c in pr['pd'] if c == 'DURATION')
    if durs != sorted(note.dur_parts()):
        probs.append(f'duration marks {durs} != {sorted(note.dur_parts())}')
    if note.rest:
        if [p for p, c in pr['pd'] if c == 'REST'] != ['r']:
            probs.append('rest character missing')
        if any(c in ('PITCH', 'ALTERATION') for _, c in pr['pd']):
            probs.append('rest exported with a pitch')
    else:
        pit = [p for p, c in pr['pd'] if c == 'PITCH']
        if pit != [note.letters]:
            probs.append(f'pitch letters {pit} != {[note.letters]}')
        alt = [p for p, c in pr['pd'] if c == 'ALTERATION']
        if alt != ([note.acc] if note.acc else []):
            probs.append(f'accidental {alt} != {[note.acc] if note.acc else []}')
    dec = pr['dec']
    if len(dec) != len(set(dec)):
        probs.append(f'signifier repeated in the normal form: {dec}')
    own = set(note.all_sigs())
    if union is None:
        if set(dec) != own:
            probs.append(f'signifiers {sorted(dec)} != {sorted(own)}')
    else:
        if not own <= set(dec):
            probs.append(f'own signifiers {sorted(own)} not all kept: {sorted(dec)}')
        if not set(dec) <= set(union):
            probs.append(f'signifiers {sorted(set(dec) - set(union))} not written anywhere in the chord')
    if any(len(d) != 1 for d in dec):
        probs.append(f'signifier parts are not single characters: {dec}')
    return probs


def strip_separators(s):
    return s.replace('@', '').replace('·', '')


# ---- category filter on an extended cell -------------------------------------------------------------------
def filter_enote(text, selected):
    """Delete the sub-parts of one exported extended note whose category is not selected.
    Returns the comparable form: (list of kept pitch/duration parts, list of kept decorations)."""
    pr = parse_enote(text)
    pd = [p for p, c in pr['pd'] if c in selected]
    dec = [d for d in pr['dec'] if 'DECORATION' in selected]
    return pd, dec


def comparable_enote(text):
    """Observed filtered note -> (pd parts, decorations) ignoring a leading separator left by deleted parts."""
    if text in ('*', '.', ''):
        return [], []
    pd_txt, sep, dec_txt = text.partition('·')
    pd = [p for p in pd_txt.split('@') if p != ''] if pd_txt != '' else []
    dec = [d for d in dec_txt.split('·') if d != ''] if sep else []
    return pd, dec
