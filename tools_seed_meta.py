"""Writes seeded/<id>/meta.json from the table below + the outputs of `bin/try_seed <dir> <id>-all` in /tmp."""
import json, os, re, subprocess

NEEDS = {
 'C01a': ("listener appends the grace/appoggiatura mark before the augmentation dots", "a note with a dotted duration AND a grace/appoggiatura mark inside the duration (8.qd)"),
 'C01b': ("csv dialect 'excel-tab' re-introduces quoting in the line reader", "a cell whose first character is the pizzicato signifier \" (position of a signifier)"),
 'C02a': ("join tracker not reset at row start", "one spine, >= 3 sub-spines narrowed by two join lines directly after each other"),
 'C02b': ("column_index == 0 guard lost: row[-1] wraps around", "a single-spine document whose sub-spines are all joined on one line (first and last cell *v)"),
 'C03a': ("per-cell 'seen' set with per-note decoration list in chords", "a chord in which a later note repeats a signifier already on an earlier note"),
 'C03b': ("accidental kept in listener state across chord notes", "a chord where an altered note is followed by an unaltered one"),
 'C04a': ("process-wide bekern cache keyed by token.encoding", "bekern/bkern export of a transposed document (or a lyric equal to a note text)"),
 'C04b': ("bekern falls back to the unreduced note text when the reduction is empty", "exclude=[PITCH] (or DURATION+REST) on a note/rest that keeps only signifiers, basic encodings"),
 'C05a': ("cached category subtrees mutated in place by valid()", "a call with a bare include category and an overlapping exclude, then a later call naming that category"),
 'C05b': ("exclude set intersected with the include closure before expansion", "an exclude that is a strict ancestor of an include and outside the include closure"),
 'C06a': ("spine gate: ids take precedence, type check dropped", "spine_ids and spine_types given together with an id of an unselected type"),
 'C06b': ("same slip in a different helper", "spine_ids and spine_types together"),
 'C07a': ("pickup rule tests category == NOTE_REST instead of CORE descendant", "no opening barline and a first data row made only of chords / null tokens"),
 'C07b': ("pickup rule tests descendant of NOTE_REST instead of CORE", "no opening barline and chords in every column of the first data row"),
 'C08a': ("one shared SpineOperationToken per operator text (mutable cancelled_at_stage)", ">= 2 splits joined on different lines, excerpt starting after the first join"),
 'C08b': ("only the first *v of a join group marks its split cancelled", "a split nested in the left sub-spine, re-joined, excerpt from a later measure"),
 'C09a': ("memo of to_transposed keyed by hash((pitch, delta)): hash(-1) == hash(-2)", "same pitch asked for delta -1 and -2 in one process"),
 'C09b': ("triple-sharp names appended to the Chromas table, reverse map keeps the last key", "a result that is exactly F-- in some octave"),
 'C10a': ("one tokenizer (clef) cached per header spine id", "sibling sub-spines of a split under different clefs, agnostic encodings"),
 'C10b': ("agnostic export writes the converted letters back into the document's sub-token", "the same Document exported twice with an agnostic export first, clef other than G2"),
 'C11a': ("exclude intersected with the included closure", "exclude is an ancestor of an include"),
 'C11b': ("_match checks the category itself or its leaves only", "an inner category selected while all leaves below it are excluded, queried through a strict ancestor (>= 3 excludes)"),
 'C12a': ("per-importer token cache filled before the error check", "the same malformed text twice in **kern spines of one document"),
 'C12b': ("errors popped after the listener walk; walk may raise first", "a malformed cell whose recovered tree crashes the listener (2r$, truncated *xywh) followed by a valid **kern cell"),
 'C13a': ("agnostic tokenizers cached per (encoding, clef) without the category set", "two agnostic exports with different sub-token category sets in one process"),
 'C13b': ("agnostic branch reads the alteration from the unfiltered sub-tokens", "agnostic encoding with ALTERATION deselected and PITCH kept, note with an accidental"),
 'C14a': ("graph export reverses Node.children in place", "an odd number of graph exports followed by an order-sensitive token query, >= 2 spines or a split"),
 'C14b': ("Document iteration keeps a cursor on the document", "an iteration that is not exhausted (next(doc), break, raising loop body) followed by another iteration"),
 'C15a': ("per-call cache of transposed tokens keyed by token.encoding", "a second transposition of an already transposed document with two notes of one pitch / two rests"),
 'C15b': ("transposed pitch split into PITCH + ALTERATION sub-tokens", "transposing back a result in which a natural note gained an accidental"),
 'C16a': ("exporter memo keyed by (name, octave, number of accidentals)", "one exporter instance reused for n sharps and n flats of the same letter/octave"),
 'C16b': ("importer hands back the same pitch object on every call", "a pitch kept while the same importer imports another spelling"),
 'C17a': ("unique traversal marks encodings as seen before the category test", "unique query with a filter, same text under two categories, out-of-filter one first"),
 'C17b': ("same slip, rewritten differently", "as C17a"),
 'C18a': ("non-kern importers catch only a new KernSyntaxError", "a cell that makes the kern listener itself raise (ri-, rit., truncated *xywh) in a non-kern spine"),
 'C18b': ("non-kern importers reuse one kern importer; errors cleared at the end", "a 'rit.'-like cell immediately followed by a structural cell through the same importer"),
 'C19a': ("'if options.to_measure and ...' treats 0 as absent", "cut at the first barline of a score without pickup: pair (0, 0)"),
 'C19b': ("'options.to_measure or measures'", "as C19a"),
 'C20a': ("directory mode de-duplicates inputs by file stem", "recursive directory mode with the same file name in two directories"),
 'C20b': ("_write appends a final newline; converters routed through _write", "an empty export (dump) or an ekern input without final newline"),
 'C01c': ("null rows removed from the row list while iterating over it", ">= 2 consecutive all-null rows (after the header)"),
 'C02c': ("csv dialect excel_tab in both readers (quoting again)", "a cell that begins with a double quote"),
 'C03c': ("barline 'correction' now fires with endswith and drops the leading '='", "a left-right repeat barline (=:|!|: or =:!:)"),
 'C04c': ("header rewriting moved into append_row; the measure-excerpt preamble still calls export_token", "from_measure >= 1 with an encoding other than kern"),
 'C05c': ("NoteRestToken.export returns '*' early when no pitch/duration part is selected", "a decorated note/rest with DECORATION selected and none of its other parts"),
 'C06c': ("adjacent *v merged by common last spine operator instead of common header", "a split inside a split in a spine that is not the right-most, plus a spine selection"),
 'C07c': ("end stage compared with M-1 instead of M (off by one)", "to_measure == M-1 on a score with content after its last barline"),
 'C08c': ("is_signature_cancelled returns True when its look-ahead reaches the end of the excerpt", "a measure range in which some spine holds only chords (no single note or rest)"),
 'C09c': ("direction compared with 'is' (identity) instead of ==", "direction 'up' passed as a string built at run time"),
 'C10c': ("row-level is_barline flag short-circuits the elif chain that registers signatures", "a clef right of a '*' in a row before the first barline/data row, >= 2 spines"),
 'C11c': ("valid() expands and subtracts in place on the caller's set", "the same include set object reused after a call that excluded one of its members"),
 'C12c': ("exporter strips blanks from every exported token", "a malformed (or free-text) cell with a leading/trailing blank"),
 'C13c': ("spine ids resolved as indexes in the type-filtered header list", "spine_ids with a spine removed by the type selection to the left of a requested one"),
 'C14c': ("valid() closes the caller's set in place (also BEKERN_CATEGORIES)", "categories passed as a set object that is reused or inspected afterwards"),
 'C15c': ("'continue' for rests skips the enqueueing of children in the BFS", "a rest followed by notes further down the same spine"),
 'C16c': ("octave validated with str(octave).isdigit()", "any spelling of octave -1 (five upper-case letters)"),
 'C17c': ("filter expanded with match() (adds ancestors) instead of valid()", "a filter naming a category strictly below a token-level category (PITCH, DURATION, ...)"),
 'C18c': ("importer dispatch table keyed '**mhxm' instead of '**mxhm'", "a **mxhm spine imported through createImporter / loads"),
 'C20c': ("import_string reads through StringIO with default csv quoting", "loads() of a text with a cell starting with a double quote (load() unaffected)"),
 'C01d': ("decoration sort key compares encoding.upper(): case pairs keep their written order", "a note carrying both members of a case pair of signifiers (K/k, M/m, T/t, J/j, L/l ...)"),
 'C02d': ("cancelled_at_stage became a property whose setter raises when cancelled twice at different stages", "nested split whose branches are joined in non-reverse order / on different lines"),
 'C03d': ("measure-excerpt preamble removes filtered spines from the Document's own stage list", "an export with from_measure AND a spine selection, then the default export of the same Document"),
 'C04d': ("agnostic branch glues the alteration onto the previous sub-token in place", "agnostic encoding with PITCH deselected and ALTERATION+DURATION kept, note with accidental"),
 'C05d': ("ExportOptions uses 'token_categories or default'; parse_options passes the computed set to the constructor", "an include/exclude pair that selects nothing"),
 'C06d': ("Generic.export writes document spine ids into the caller's ExportOptions", "one ExportOptions object (spine_ids None) reused for a second document with more spines, via kp.export/kp.store"),
 'C07d': ("Document iteration uses a cursor stored on the document; __iter__ returns self", "two iterations of the same document alive at once (nested loops, zip(doc, doc))"),
 'C09d': ("negative intervals normalised to (abs, 'down') discarding the caller's direction", "interval d1 or dd1 with direction 'down' through the transposer API"),
 'C10d': ("agnostic tokenizers return early when NOTE is not among the selected categories", "agnostic encoding with an include listing leaf categories (PITCH ...) without NOTE, clef other than G2"),
 'C12d': ("import_file reads with csv.excel_tab (quoting) while import_string keeps QUOTE_NONE", "a malformed cell starting with a double quote, read through kp.load"),
 'C13d': ("'x or default' in ExportOptions + constructor call in parse_options", "an empty selection (spine_types=[] or include/exclude cancelling out)"),
 'C14d': ("export_string appends a sentinel to the document's measure list in place", "a dump with to_measure == measures_count() followed by any measure-dependent query"),
 'C15d': ("sub-tokens rebuilt through a dict keyed by Subtoken (equal dots collapse)", "a note or rest with two or more augmentation dots"),
 'C17d': ("valid() skips categories 'covered' by another one with the argument order reversed", "a filter containing an ancestor/descendant pair"),
 'C19d': ("public.concat pops trailing pairs with to <= from", "a last fragment that contains exactly one barline"),
 'C20d': ("Generic.store compares os.path.getsize (bytes) with len(content) (characters)", "dump of an export containing a non-ASCII character (lyrics, or any eKern export with decorations)"),
 'C01e': ("plain-kern fast path returns token.encoding for every SimpleToken (ChordToken is one)", "a chord whose notes carry signifiers in non-canonical order / repeated, default export"),
 'C02e': ("exporter subtracts from the shared SPINE_OPERATIONS set in place (opening_operations -= ...)", "any export with to_measure, then a later import of a text with spine operators"),
 'C03e': ("BoundingBoxToken.export rebuilds the cell from its fields (the first box of a page was extended in place by the importer)", ">= 2 *xywh boxes on one page"),
 'C04e': ("BoundingBoxToken.export(filter_categories=None) no longer swallows the agnostic tokenizers' extra keyword", "a *xywh token and the akern / aekern encoding"),
 'C05e': ("ChordToken derives from ComplexToken: chords bypass the category gate of Exporter.append_row", "a chord and a selection that does not contain CHORD"),
 'C06e': ("dumps() keyword parsing skips falsy values", "spine_ids=[] or spine_types=[] (the empty selection)"),
 'C07e': ("dumps() keyword parsing uses 'value or default'", "to_measure=0 with from_measure >= 1 (end before start)"),
 'C08e': ("adjacent *v merged only when they close the same split", "a nested split (>= 3 sub-spines) re-joined before the barline in a spine that is not the last, spines with different signatures, a range starting later"),
 'C09e': ("to_transposed registers lower-case interval names in the shared IntervalsByName table", "one call with an unknown / differently capitalised interval name, then any interval query"),
 'C10e': ("KernTokenizer stops stripping '@' / '·' from comments and lyrics; AKernTokenizer still strips them", "a field comment or lyric containing '@' or '·', kern vs agnostic export"),
 'C11e': ("valid() skips the descendant expansion when len(include) >= 16 (number of top-level entries)", "an include selection of 16..36 categories that is not closed under descendants"),
 'C12e': ("imported text is NFC-normalised before the line reader", "a malformed cell containing a combining mark after a composable letter, or a singleton code point (U+212B)"),
 'C13e': ("adjacent *v of a spine are closed two by two", "a join of three sub-spines on one line and a spine selection / measure range"),
 'C14e': ("helper count_by(items, key, counts={}) with a mutable default builds the exporter's live-path table", ">= 2 from_measure exports of one Document with two-sided nested splits closed by one multi-way join"),
 'C15e': ("pitch importer regex accepts at most four equal letters", "a note in octave >= 8 or <= -1 (five or more letters), in the source or reached by a first transposition"),
 'C16e': ("import_pitch picks the pitch with a regex that allows at most five equal letters", "a six-letter spelling (octave 9 / -2)"),
 'C17e': ("Exporter.get_spine_types exports the header with to_measure=1", "is_monophonic / spine_types on a document without any measure"),
 'C18e': ("kern importer built through a helper that attaches the collecting error listener to the parser only", "a cell with a character the kern lexer does not know, in a non-kern spine"),
 'C19e': ("an invisible barline (=-) no longer opens a measure", "a score with an invisible barline and a cut placed at it"),
 'C20e': ("_write creates the target directory with mkdir() without parents=True", "dump to a path whose parent and grand-parent directories are both missing"),
 'C01f': ("rest decorations appended without de-duplication (exitRestDecoration rewritten)", "a rest that repeats a signifier, or a chord with a rest sharing a signifier with another member"),
 'C02f': ("'same spine' of two adjacent *v decided by the header TEXT instead of the header node", "two neighbouring spines of the same type, both split and joined on one line so that the *v runs touch"),
 'C03f': ("regex fast path for plain tokens drops the %n of a rational rest", "a plain rest with a rational duration (8%3r) in a **kern spine"),
 'C04f': ("BekernTokenizer removes DECORATION from the caller's category set in place", "one set object of categories reused (ExportOptions) for a basic export and then another view"),
 'C05f': ("TokenizerFactory re-expands a list/tuple of categories with valid()", "the final selection handed over as a list or tuple in an ExportOptions object, a note sub-part excluded under a selected ancestor"),
 'C06f': ("terminator row of a to_measure export counted from tree nodes gated by spine type only", "to_measure together with a proper subset of spine_ids"),
 'C07f': ("export_string writes to_measure=None into the caller's ExportOptions when to_measure == M", "one ExportOptions object used on a document with exactly to_measure measures and then on another document"),
 'C08f': ("SignatureNodes stores the meter symbol in the time signature's entry", "a spine with *M4/4 and *met(c) before the range, range starting at measure >= 1"),
 'C09f': ("direction moved before the format parameters in the transposer signatures", "format (and direction) passed positionally to transpose / transpose_encoding_to_agnostic / transpose_agnostic_to_encoding"),
 'C10f': ("agnostic conversion drops accidentals held inside the PITCH sub-token (with_accidentals=False)", "agnostic export of a document produced by to_transposed"),
 'C11f': ("match() shortcut for a bare include category tests only 'target inside include'", "include passed as a bare enum member, exclude omitted, target a strict ancestor of include"),
 'C12f': ("import_string strips the text before splitting it into lines", "a text that starts with blank lines and contains a malformed cell (reported line numbers)"),
 'C13f': ("resolved spine selection written back into the caller's ExportOptions", "one ExportOptions object reused after changing its selection or on another document"),
 'C14f': ("export_string replaces spine_ids=None by the document's ids in the caller's ExportOptions", "an ExportOptions object with spine_ids=None reused on a document with more spines / inspected afterwards"),
 'C15f': ("error message helper pops from the shared AVAILABLE_INTERVALS list", "a to_transposed call with an unknown interval name, then a transposition by the last names of the table (octave, m7 ...)"),
 'C16f': ("importer collects validation errors in a list that is never emptied", "one HumdrumPitchImporter reused after it rejected a mixed-accidental / mixed-letter text"),
 'C17f': ("traversal default 'filter or all categories'", "a filter passed as an empty container ([], (), set())"),
 'C18f': ("*above / *below / *centered get category DYNAMICS, which the **dynam importer accepts from the kern parser", "a **dynam / **dyn cell '*above:2', '*centered:1' (parameter the grammar does not consume)"),
 'C19f': ("concat joins with (separator or '')", "separator=None passed explicitly with fragments that do not end in a line break"),
 'C20f': ("store opens (creates / truncates) the target before exporting", "dump with an option set the exporter rejects, to an existing or a fresh path"),
 'C01g': ("_add_decoration warns when it drops a repeated signifier", "warnings turned into errors (-W error) and a chord with a signifier on some members only (the normal form repeats it)"),
 'C02g': ("import_file(encoding=None): the locale default instead of UTF-8", "a file with non-ASCII text read in a process whose default encoding is not UTF-8"),
 'C03g': ("export_string writes the document's spine ids into options.spine_ids when it is None", "one default ExportOptions object reused for a later document with more spines"),
 'C04g': ("bekern tokenizer strips decorations on a shallow copy of the chord that shares its note list", "a basic export of a Document followed by a full view of the same Document (chords with signifiers)"),
 'C05g': ("BekernTokenizer discards DECORATION from the category set it was given", "one set object of categories used for a basic export and then for another encoding"),
 'C06g': ("spine_types query iterates a set of header Nodes (hash = process-wide node id)", ">= 2 selected spines of different types and header node ids that wrap modulo 8 (later documents of a process)"),
 'C07g': ("spine history of a from_measure export built by a recursive helper (one frame per stage)", "from_measure whose opening barline lies beyond about line 1000"),
 'C08g': ("SignatureNodes default argument {} shared process-wide; empty signatures are falsy", "an earlier import with a signature of kind K, then a **kern spine without kind K, exported with from_measure"),
 'C09g': ("pitch lookup table for octaves 0..9 indexed with a negative chroma (wraps around)", "a result below C0 (an octave-0 pitch moved down across the octave)"),
 'C10g': ("staff position parsed with a regex that reads one digit", "a note 18 or more steps above (22 below) the bottom line"),
 'C11g': ("valid() hands out one module-level set for include=None and an empty exclude", "a caller that empties or edits the set it got back, then any later query with include=None"),
 'C12g': ("the final 'lexer errors found' check became an assert", "python -O and a cell whose only defect is a character the lexer cannot tokenise"),
 'C13g': ("valid() expands and subtracts in place on a caller's include set", "the same include set object (e.g. BEKERN_CATEGORIES) passed again after a call that combined it with an exclude"),
 'C14g': ("next_nodes de-duplicated through set() in the from_measure branch (order by node id)", "a from_measure export of >= 2 spines with different headers, compared with a second import of the same text"),
 'C15g': ("to_transposed walks the clone with the recursive Node.dfs", "a score of about 1000 rows or more"),
 'C16g': ("accidental text looked up in a table derived from Chromas (no triple sharps)", "exporting a triple-sharp pitch"),
 'C17g': ("is_monophonic iterates a recursive generator (one level per row)", "one **kern spine, no chord in the first ~990 rows, a longer document"),
 'C18g': ("createImporter warns for unknown spine headers", "warnings turned into errors and a document with an unknown ** header"),
 'C19g': ("concat strips the fragments and writes them back into the caller's list", "one list of newline-terminated fragments passed first with the newline separator and then with the empty one"),
 'C20g': ("import_file decodes the file in 8192-byte blocks with errors='ignore'", "a file larger than 8 KiB with a multi-byte character across a block boundary"),
}
MISSED_FIRST = {'C02a', 'C04a', 'C10a', 'C16a', 'C20a', 'C20b', 'C18b', 'C03d', 'C17e', 'C14e', 'C10e', 'C04e', 'C12e', 'C08e', 'C19e', 'C17f', 'C16f', 'C20f', 'C07f', 'C09f', 'C04f', 'C13f', 'C06f', 'C19f', 'C15f', 'C18f', 'C12f', 'C10f', 'C20g', 'C15g', 'C19g', 'C01g'}
STRENGTHENED_BEFORE_FIRST_RUN = {'C16b', 'C04b', 'C11b', 'C11c', 'C09c', 'C04c', 'C01c', 'C07d', 'C06d', 'C12d', 'C10d', 'C09e', 'C18e', 'C03e', 'C11e', 'C02e', 'C05f', 'C11g', 'C02g', 'C18g', 'C04g', 'C07g', 'C12g', 'C17g', 'C13g', 'C03g', 'C05g'}
HEAD = subprocess.run(['git', '-C', '/repo', 'rev-parse', '--short', 'HEAD'], capture_output=True, text=True).stdout.strip()
# changes that a later fix: commit in /repo made harmless (kept for the record; they were confirmed and caught at the commit named)
NEUTRALISED = {
 'C08a': ('ff25841', 'fix "nested splits closed by one multi-way join...": the cancelled flags this change corrupts are no longer consulted for a spine that is back to one sub-spine; demo exits 0 with the patch on the repaired tree'),
 'C08b': ('ff25841', 'same fix: the flag this change fails to set is no longer needed'),
 'C03e': ('fe1b803', 'fix d049240 "the page bounding box no longer aliases the first box token": the box fields this change exports are no longer corrupted by the importer, so rebuilding the cell from them round-trips; demo exits 0 with the patch on the repaired tree'),
}

for sid, (what, needs) in sorted(NEEDS.items()):
    d = f'/verif/seeded/{sid}'
    if not os.path.isdir(d):
        continue
    out = f'/tmp/tryall-{sid}.out'
    if not os.path.exists(out) and os.path.exists(f'/tmp/try-{sid}.out'):
        out = f'/tmp/try-{sid}.out'
    caught, base, demo = [], None, []
    if os.path.exists(out):
        txt = open(out, errors='replace').read()
        caught = sorted(set(re.findall(r'^(C\d\d) rc=1', txt, re.M)))
        ran = sorted(set(re.findall(r'^(C\d\d) rc=\d', txt, re.M)))
        inconc = re.findall(r'^(C\d\d) rc=2', txt, re.M)
        m = re.search(r'(\d+)/276 stable tests pass', txt)
        base = m.group(0) if m else None
        demo = re.findall(r'^exit (\d)', txt, re.M)
    else:
        inconc = []
        ran = []
    meta = {
        'id': sid,
        'breaks_property': sid[:3],
        'origin': 'independent sub-agent given only the property text and a scratch worktree of /repo (nothing from /verif)',
        'change': what,
        'needs_to_manifest': needs,
        'confirmed_here': {
            'command': f'bin/try_seed seeded/{sid} {sid}-all   (fresh scratch worktree of /repo HEAD under /tmp, removed afterwards)',
            'patch_applies_to_repo_head': base is not None,
            'pinned_suite_with_patch': base,
            'demo_exit_codes [pristine, patched]': demo[:2],
        },
        'quick_checks_run_against_it': ran if len(ran) < 20 else 'all 20',
        'quick_checks_that_report_a_violation': caught,
        'quick_checks_inconclusive_with_patch': inconc,
        'own_check_catches_it': sid[:3] in caught,
        'confirmed_at_repo_commit': NEUTRALISED[sid][0] if sid in NEUTRALISED else 'see git log of /verif at the time of seeded/' + sid + '/meta.json (repo HEAD ' + HEAD + ' or an ancestor; the patch still applies to HEAD)',
        'status': ('neutralised by a later repair of /repo: ' + NEUTRALISED[sid][1]) if sid in NEUTRALISED else 'active: breaks the property on /repo HEAD',
        'history': ('missed by the own check when it arrived; closed by widening workload/oracle (DESIGN.md section 10)' if sid in MISSED_FIRST else
                    'own check strengthened after reading the author\'s summary and before its first run against this change (DESIGN.md section 10)'
                    if sid in STRENGTHENED_BEFORE_FIRST_RUN else 'caught by the own check as it stood'),
    }
    json.dump(meta, open(f'{d}/meta.json', 'w'), indent=1)
print('ok')
