"""Regenerates MANIFEST.json from the table below (run: python3 tools_manifest.py)."""
import json

T = 'runtime monitoring: '
CHECKS = {
 'C01': ("Held on the generated documents observed: fixed-point, extended round-trip and two-spelling canonicity oracles on the real loads/dumps, with a contract on NoteRestToken.export and a recorder on decoration de-duplication; unbounded input domain, so exploration is the honest level.",
         T + "fixed-point / two-rendering oracle over generated documents + icontract export contract + listener reach (sys.monitoring)",
         "Generator (gen/doc.py, gen/notes.py) covers the grammar classes listed in DESIGN 2.2; signifier alphabet of 35 non-combining characters."),
 'C02': ("Tree built by the real importer compared node for node with an independent spine-path model; the spine-operator layouts up to the stated depth are enumerated completely, deeper documents are sampled.",
         T + "reference-model comparison (spine-path model) + tree-shape invariant + icontract add_node contract",
         "Spine-path model written from the Humdrum syntax rules; kernpy's design of global-comment chaining is taken as given."),
 'C03': ("Every cell of the real export compared with the generator's abstract description of the source cell (position, text, note structure).",
         T + "reference-model comparison (abstract document) + export-rows invariant",
         "The abstract document is the independent oracle; ':!:' may be exported as ':!:' or ':|!|:'."),
 'C04': ("Relations between the six real exports of each document under five category selections; which cells are notes/chords comes from the abstract document.",
         T + "relational oracle over the six real exports + recorder on TokenizerFactory.create",
         "Agnostic exports may raise ValueError when a note has no clef in force (decided from the abstract document)."),
 'C05': ("Filtered export compared with a model filter (closure from the documented tree, sub-part categories) of the real unfiltered export, for every single category, many pairs and larger sets per document.",
         T + "reference-model comparison (category filter model) + recorder on the exporter's gate/placeholder path",
         "Token categories are read from the imported tree; a placeholder may be '.' or '*'."),
 'C06': ("Export under every subset of spine ids and types compared byte for byte with the column projection of the real full export; column->spine from the spine-path model.",
         T + "reference-model comparison (column projection from the spine-path model)",
         "Column -> spine mapping from model/spinepaths.py."),
 'C07': ("Every (a,b) range of every generated score checked against the model's measure partition of the full export; invalid ranges must raise ValueError; stage arithmetic observed through sys.monitoring.",
         T + "measure-partition checker over all ranges + PY_RETURN stage observer",
         "Claimed core: uniform signatures, no mid-score signature change, splits re-joined before barlines; other classes explored and tracked as findings."),
 'C08': ("Every excerpt validated by a stand-alone Humdrum validator, re-imported, and its per-note (clef, key, meter) context compared with the full score.",
         T + "stand-alone Humdrum validator + signature-context tracker over every excerpt",
         "Claimed core as stated by the property; tracked classes keyed in KNOWN_FINDINGS.txt."),
 'C09': ("Complete 25 200-case grid of the public transpose() against an independent letter/semitone model plus inverse/identity/composition laws; shadow on the calls issued by document transposition.",
         T + "exhaustive grid vs reference interval model + call shadow",
         "Interval sizes from standard theory; results needing 3+ accidentals are not constrained."),
 'C11': ("Complete enumeration of the category algebra (37 categories, 37x37 pairs, include/exclude pairs) against the documented tree; shadow monitor on the calls kernpy itself issues.",
         T + "exhaustive grid vs reference tree model + call shadow",
         "Documented tree = README.md Tree block."),
 'C16': ("Complete 539-spelling grid: import, export, argument snapshot, double export; contract on export_pitch under document workloads.",
         T + "exhaustive grid + before/after snapshot of the argument object",
         "Humdrum spelling convention c=C4."),
 'C18': ("Every spine importer driven with a constructed + random token corpus; outcome compared with a fresh kern importer and the verbatim rule; input-consumption monitor decides shared structure for random strings.",
         T + "differential oracle vs fresh kern importer + parser consumption monitor",
         "Own category per spine type as listed in the evidence assumptions."),
 'C19': ("concat over many cut sets of each score: deep snapshot vs joined import, index arithmetic, fragment data lines from the abstract cut.",
         T + "deep-snapshot comparison + index/fragment oracle from the abstract cut",
         "Cuts before barline rows only (the property's domain)."),
}
PLANNED = ['C10', 'C12', 'C13', 'C14', 'C15', 'C17', 'C20']
CHECKS.update(json.load(open('tools_manifest_extra.json')) if __import__('os').path.exists('tools_manifest_extra.json') else {})

checks = []
for pid in sorted(CHECKS):
    text, tech, note = CHECKS[pid]
    checks.append({
        "property_id": pid,
        "quick_cmd": f"bin/check {pid} --tier quick",
        "thorough_cmd": f"bin/check {pid} --tier thorough",
        "evidence_file": f"evidence/{pid}.json",
        "replay_cmd_template": f"bin/check {pid} --replay {{path}}",
        "engine": "kpverif",
        "level_claimed": {"category": "exploration", "text": text, "design_ref": f"DESIGN.md section 4, {pid}"},
        "level_note": note,
        "technique": tech,
    })
m = {"version": 1,
     "setup_cmd": "/venv/bin/pip install -q --no-index --find-links /opt/veriftools/wheels --target /verif/.deps icontract deal",
     "hooks": {"guard": "KERNPY_VERIF",
               "enable": "no in-source hooks: all instrumentation is attached from the harness (attribute replacement, icontract, sys.monitoring); bin/check exports KERNPY_VERIF=1 (reserved)",
               "baseline_off_cmd": "bin/baseline", "source_commits": [], "add_only": True},
     "engines": [{"name": "kpverif", "path": "kpverif/", "serves_properties": sorted(CHECKS),
                  "kind_free_text": "Python harness: workload generators, reference models, monitors on the real kernpy objects, three-valued verdicts"}],
     "checks": checks,
     "not_applicable": [{"property_id": p, "reason": "check not registered yet in this round (planned, DESIGN.md section 4); runtime monitoring applies"}
                        for p in PLANNED if p not in CHECKS],
     "notes": "Exit codes: 0 held (KNOWN-FINDING lines allowed), 1 VIOLATION, 2 inconclusive. Genuine defects repaired in /repo are listed as 'fixed:' in KNOWN_FINDINGS.txt. The interpreter's hash seed is part of the workload (a function of seed, tier and shard; recorded in evidence and replay files). C01, C02, C12, C18, C19 and C20 also run a batch of their texts in child interpreters under other hash seeds, -W error, an ASCII default encoding, -O and another current directory (kpverif/envchild.py). Every document is imported through one of six public entry points in turn, exports through long-lived option objects alternate with one long-lived Exporter object, and C03, C07 and C13 re-take exports of earlier documents after later imports (kpverif/kpx.py). A driver stopped by an exception raised inside kernpy reports a violation (library-raised-in-unguarded-call) besides being inconclusive. 263 seeded changes with the checks that catch them are under seeded/ (DESIGN.md section 10)."}
json.dump(m, open('MANIFEST.json', 'w'), indent=1)
print(len(checks), 'checks;', len(m['not_applicable']), 'not applicable')
